# Pristine copy of /repo/src/xdoctest/_tokenize.py at ce7a2fa (itself vendored from CPython 3.11): the reference
# tokenizer oracle of the correspondence checks, so that an edit to the copy in /repo shows up as a disagreement.
#  type: ignore
# Vendored from Python 3.11
"""Tokenization help for Python programs.

tokenize(readline) is a generator that breaks a stream of bytes into
Python tokens.  It decodes the bytes according to PEP-0263 for
determining source file encoding.

It accepts a readline-like method which is called repeatedly to get the
next line of input (or b"" for EOF).  It generates 5-tuples with these
members:

    the token type (see token.py)
    the token (a string)
    the starting (row, column) indices of the token (a 2-tuple of ints)
    the ending (row, column) indices of the token (a 2-tuple of ints)
    the original line (string)

It is designed to match the working of the Python tokenizer exactly, except
that it produces COMMENT tokens for comments and gives type OP for all
operators.  Additionally, all token lists start with an ENCODING token
which tells you which encoding was used to decode the bytes stream.
"""

__author__ = 'Ka-Ping Yee <ping@lfw.org>'
__credits__ = ('GvR, ESR, Tim Peters, Thomas Wouters, Fred Drake, '
               'Skip Montanaro, Raymond Hettinger, Trent Nelson, '
               'Michael Foord')
from builtins import open as _builtin_open
from codecs import lookup, BOM_UTF8
import collections
import functools
from io import TextIOWrapper
import itertools as _itertools
import re
import sys
from token import *
from token import EXACT_TOKEN_TYPES

cookie_re = re.compile(r'^[ \t\f]*#.*?coding[:=][ \t]*([-\w.]+)', re.ASCII)
blank_re = re.compile(br'^[ \t\f]*(?:[#\r\n]|$)', re.ASCII)

import token
__all__ = token.__all__ + ["tokenize", "generate_tokens", "detect_encoding",
                           "untokenize", "TokenInfo"]
del token

class TokenInfo(collections.namedtuple('TokenInfo', 'type string start end line')):
    def __repr__(self):
        annotated_type = '%d (%s)' % (self.type, tok_name[self.type])
        return ('TokenInfo(type=%s, string=%r, start=%r, end=%r, line=%r)' %
                self._replace(type=annotated_type))

    @property
    def exact_type(self):
        if self.type == OP and self.string in EXACT_TOKEN_TYPES:
            return EXACT_TOKEN_TYPES[self.string]
        else:
            return self.type

def group(*choices): return '(' + '|'.join(choices) + ')'
def any(*choices): return group(*choices) + '*'
def maybe(*choices): return group(*choices) + '?'

# Note: we use unicode matching for names ("\w") but ascii matching for
# number literals.
Whitespace = r'[ \f\t]*'
Comment = r'#[^\r\n]*'
Ignore = Whitespace + any(r'\\\r?\n' + Whitespace) + maybe(Comment)
Name = r'\w+'

Hexnumber = r'0[xX](?:_?[0-9a-fA-F])+'
Binnumber = r'0[bB](?:_?[01])+'
Octnumber = r'0[oO](?:_?[0-7])+'
Decnumber = r'(?:0(?:_?0)*|[1-9](?:_?[0-9])*)'
Intnumber = group(Hexnumber, Binnumber, Octnumber, Decnumber)
Exponent = r'[eE][-+]?[0-9](?:_?[0-9])*'
Pointfloat = group(r'[0-9](?:_?[0-9])*\.(?:[0-9](?:_?[0-9])*)?',
                   r'\.[0-9](?:_?[0-9])*') + maybe(Exponent)
Expfloat = r'[0-9](?:_?[0-9])*' + Exponent
Floatnumber = group(Pointfloat, Expfloat)
Imagnumber = group(r'[0-9](?:_?[0-9])*[jJ]', Floatnumber + r'[jJ]')
Number = group(Imagnumber, Floatnumber, Intnumber)

# Return the empty string, plus all of the valid string prefixes.
def _all_string_prefixes():
    # The valid string prefixes. Only contain the lower case versions,
    #  and don't contain any permutations (include 'fr', but not
    #  'rf'). The various permutations will be generated.
    _valid_string_prefixes = ['b', 'r', 'u', 'f', 'br', 'fr']
    # if we add binary f-strings, add: ['fb', 'fbr']
    result = {''}
    for prefix in _valid_string_prefixes:
        for t in _itertools.permutations(prefix):
            # create a list with upper and lower versions of each
            #  character
            for u in _itertools.product(*[(c, c.upper()) for c in t]):
                result.add(''.join(u))
    return result

@functools.lru_cache
def _compile(expr):
    return re.compile(expr, re.UNICODE)

# Note that since _all_string_prefixes includes the empty string,
#  StringPrefix can be the empty string (making it optional).
StringPrefix = group(*_all_string_prefixes())

# Tail end of ' string.
Single = r"[^'\\]*(?:\\.[^'\\]*)*'"
# Tail end of " string.
Double = r'[^"\\]*(?:\\.[^"\\]*)*"'
# Tail end of ''' string.
Single3 = r"[^'\\]*(?:(?:\\.|'(?!''))[^'\\]*)*'''"
# Tail end of """ string.
Double3 = r'[^"\\]*(?:(?:\\.|"(?!""))[^"\\]*)*"""'
Triple = group(StringPrefix + "'''", StringPrefix + '"""')
# Single-line ' or " string.
String = group(StringPrefix + r"'[^\n'\\]*(?:\\.[^\n'\\]*)*'",
               StringPrefix + r'"[^\n"\\]*(?:\\.[^\n"\\]*)*"')

# Sorting in reverse order puts the long operators before their prefixes.
# Otherwise if = came before ==, == would get recognized as two instances
# of =.
Special = group(*map(re.escape, sorted(EXACT_TOKEN_TYPES, reverse=True)))
Funny = group(r'\r?\n', Special)

PlainToken = group(Number, Funny, String, Name)
Token = Ignore + PlainToken

# First (or only) line of ' or " string.
ContStr = group(StringPrefix + r"'[^\n'\\]*(?:\\.[^\n'\\]*)*" +
                group("'", r'\\\r?\n'),
                StringPrefix + r'"[^\n"\\]*(?:\\.[^\n"\\]*)*' +
                group('"', r'\\\r?\n'))
PseudoExtras = group(r'\\\r?\n|\Z', Comment, Triple)
PseudoToken = Whitespace + group(PseudoExtras, Number, Funny, ContStr, Name)

# For a given string prefix plus quotes, endpats maps it to a regex
#  to match the remainder of that string. _prefix can be empty, for
#  a normal single or triple quoted string (with no prefix).
endpats = {}
for _prefix in _all_string_prefixes():
    endpats[_prefix + "'"] = Single
    endpats[_prefix + '"'] = Double
    endpats[_prefix + "'''"] = Single3
    endpats[_prefix + '"""'] = Double3
del _prefix

# A set of all of the single and triple quoted string prefixes,
#  including the opening quotes.
single_quoted = set()
triple_quoted = set()
for t in _all_string_prefixes():
    for u in (t + '"', t + "'"):
        single_quoted.add(u)
    for u in (t + '"""', t + "'''"):
        triple_quoted.add(u)
del t, u

tabsize = 8

class TokenError(Exception): pass

class StopTokenizing(Exception): pass


class Untokenizer:

    def __init__(self):
        self.tokens = []
        self.prev_row = 1
        self.prev_col = 0
        self.encoding = None

    def add_whitespace(self, start):
        row, col = start
        if row < self.prev_row or row == self.prev_row and col < self.prev_col:
            raise ValueError("start ({},{}) precedes previous end ({},{})"
                             .format(row, col, self.prev_row, self.prev_col))
        row_offset = row - self.prev_row
        if row_offset:
            self.tokens.append("\\\n" * row_offset)
            self.prev_col = 0
        col_offset = col - self.prev_col
        if col_offset:
            self.tokens.append(" " * col_offset)

    def untokenize(self, iterable):
        it = iter(iterable)
        indents = []
        startline = False
        for t in it:
            if len(t) == 2:
                self.compat(t, it)
                break
            tok_type, token, start, end, line = t
            if tok_type == ENCODING:
                self.encoding = token
                continue
            if tok_type == ENDMARKER:
                break
            if tok_type == INDENT:
                indents.append(token)
                continue
            elif tok_type == DEDENT:
                indents.pop()
                self.prev_row, self.prev_col = end
                continue
            elif tok_type in (NEWLINE, NL):
                startline = True
            elif startline and indents:
                indent = indents[-1]
                if start[1] >= len(indent):
                    self.tokens.append(indent)
                    self.prev_col = len(indent)
                startline = False
            self.add_whitespace(start)
            self.tokens.append(token)
            self.prev_row, self.prev_col = end
            if tok_type in (NEWLINE, NL):
                self.prev_row += 1
                self.prev_col = 0
        return "".join(self.tokens)

    def compat(self, token, iterable):
        indents = []
        toks_append = self.tokens.append
        startline = token[0] in (NEWLINE, NL)
        prevstring = False

        for tok in _itertools.chain([token], iterable):
            toknum, tokval = tok[:2]
            if toknum == ENCODING:
                self.encoding = tokval
                continue

            if toknum in (NAME, NUMBER):
                tokval += ' '

            # Insert a space between two consecutive strings
            if toknum == STRING:
                if prevstring:
                    tokval = ' ' + tokval
                prevstring = True
            else:
                prevstring = False

            if toknum == INDENT:
                indents.append(tokval)
                continue
            elif toknum == DEDENT:
                indents.pop()
                continue
            elif toknum in (NEWLINE, NL):
                startline = True
            elif startline and indents:
                toks_append(indents[-1])
                startline = False
            toks_append(tokval)


def untokenize(iterable):
    """Transform tokens back into Python source code.
    It returns a bytes object, encoded using the ENCODING
    token, which is the first token sequence output by tokenize.

    Each element returned by the iterable must be a token sequence
    with at least two elements, a token number and token value.  If
    only two tokens are passed, the resulting output is poor.

    Round-trip invariant for full input:
        Untokenized source will match input source exactly

    Round-trip invariant for limited input:
        # Output bytes will tokenize back to the input
        t1 = [tok[:2] for tok in tokenize(f.readline)]
        newcode = untokenize(t1)
        readline = BytesIO(newcode).readline
        t2 = [tok[:2] for tok in tokenize(readline)]
        assert t1 == t2
    """
    ut = Untokenizer()
    out = ut.untokenize(iterable)
    if ut.encoding is not None:
        out = out.encode(ut.encoding)
    return out


def _get_normal_name(orig_enc):
    """Imitates get_normal_name in tokenizer.c."""
    # Only care about the first 12 characters.
    enc = orig_enc[:12].lower().replace("_", "-")
    if enc == "utf-8" or enc.startswith("utf-8-"):
        return "utf-8"
    if enc in ("latin-1", "iso-8859-1", "iso-latin-1") or \
       enc.startswith(("latin-1-", "iso-8859-1-", "iso-latin-1-")):
        return "iso-8859-1"
    return orig_enc

def detect_encoding(readline):
    """
    The detect_encoding() function is used to detect the encoding that should
    be used to decode a Python source file.  It requires one argument, readline,
    in the same way as the tokenize() generator.

    It will call readline a maximum of twice, and return the encoding used
    (as a string) and a list of any lines (left as bytes) it has read in.

    It detects the encoding from the presence of a utf-8 bom or an encoding
    cookie as specified in pep-0263.  If both a bom and a cookie are present,
    but disagree, a SyntaxError will be raised.  If the encoding cookie is an
    invalid charset, raise a SyntaxError.  Note that if a utf-8 bom is found,
    'utf-8-sig' is returned.

    If no encoding is specified, then the default of 'utf-8' will be returned.
    """
    try:
        filename = readline.__self__.name
    except AttributeError:
        filename = None
    bom_found = False
    encoding = None
    default = 'utf-8'
    def read_or_stop():
        try:
            return readline()
        except StopIteration:
            return b''

    def find_cookie(line):
        try:
            # Decode as UTF-8. Either the line is an encoding declaration,
            # in which case it should be pure ASCII, or it must be UTF-8
            # per default encoding.
            line_string = line.decode('utf-8')
        except UnicodeDecodeError:
            msg = "invalid or missing encoding declaration"
            if filename is not None:
                msg = '{} for {!r}'.format(msg, filename)
            raise SyntaxError(msg)

        match = cookie_re.match(line_string)
        if not match:
            return None
        encoding = _get_normal_name(match.group(1))
        try:
            codec = lookup(encoding)
        except LookupError:
            # This behaviour mimics the Python interpreter
            if filename is None:
                msg = "unknown encoding: " + encoding
            else:
                msg = "unknown encoding for {!r}: {}".format(filename,
                        encoding)
            raise SyntaxError(msg)

        if bom_found:
            if encoding != 'utf-8':
                # This behaviour mimics the Python interpreter
                if filename is None:
                    msg = 'encoding problem: utf-8'
                else:
                    msg = 'encoding problem for {!r}: utf-8'.format(filename)
                raise SyntaxError(msg)
            encoding += '-sig'
        return encoding

    first = read_or_stop()
    if first.startswith(BOM_UTF8):
        bom_found = True
        first = first[3:]
        default = 'utf-8-sig'
    if not first:
        return default, []

    encoding = find_cookie(first)
    if encoding:
        return encoding, [first]
    if not blank_re.match(first):
        return default, [first]

    second = read_or_stop()
    if not second:
        return default, [first]

    encoding = find_cookie(second)
    if encoding:
        return encoding, [first, second]

    return default, [first, second]


def open(filename):
    """Open a file in read only mode using the encoding detected by
    detect_encoding().
    """
    buffer = _builtin_open(filename, 'rb')
    try:
        encoding, lines = detect_encoding(buffer.readline)
        buffer.seek(0)
        text = TextIOWrapper(buffer, encoding, line_buffering=True)
        text.mode = 'r'
        return text
    except:
        buffer.close()
        raise


def tokenize(readline):
    """
    The tokenize() generator requires one argument, readline, which
    must be a callable object which provides the same interface as the
    readline() method of built-in file objects.  Each call to the function
    should return one line of input as bytes.  Alternatively, readline
    can be a callable function terminating with StopIteration:
        readline = open(myfile, 'rb').__next__  # Example of alternate readline

    The generator produces 5-tuples with these members: the token type; the
    token string; a 2-tuple (srow, scol) of ints specifying the row and
    column where the token begins in the source; a 2-tuple (erow, ecol) of
    ints specifying the row and column where the token ends in the source;
    and the line on which the token was found.  The line passed is the
    physical line.

    The first token sequence will always be an ENCODING token
    which tells you which encoding was used to decode the bytes stream.
    """
    encoding, consumed = detect_encoding(readline)
    empty = _itertools.repeat(b"")
    rl_gen = _itertools.chain(consumed, iter(readline, b""), empty)
    return _tokenize(rl_gen.__next__, encoding)


def _tokenize(readline, encoding):
    lnum = parenlev = continued = 0
    numchars = '0123456789'
    contstr, needcont = '', 0
    contline = None
    indents = [0]

    if encoding is not None:
        if encoding == "utf-8-sig":
            # BOM will already have been stripped.
            encoding = "utf-8"
        yield TokenInfo(ENCODING, encoding, (0, 0), (0, 0), '')
    last_line = b''
    line = b''
    while True:                                # loop over lines in stream
        try:
            # We capture the value of the line variable here because
            # readline uses the empty string '' to signal end of input,
            # hence `line` itself will always be overwritten at the end
            # of this loop.
            last_line = line
            line = readline()
        except StopIteration:
            line = b''

        if encoding is not None:
            line = line.decode(encoding)
        lnum += 1
        pos, max = 0, len(line)

        if contstr:                            # continued string
            if not line:
                raise TokenError("EOF in multi-line string", strstart)
            endmatch = endprog.match(line)
            if endmatch:
                pos = end = endmatch.end(0)
                yield TokenInfo(STRING, contstr + line[:end],
                       strstart, (lnum, end), contline + line)
                contstr, needcont = '', 0
                contline = None
            elif needcont and line[-2:] != '\\\n' and line[-3:] != '\\\r\n':
                yield TokenInfo(ERRORTOKEN, contstr + line,
                           strstart, (lnum, len(line)), contline)
                contstr = ''
                contline = None
                continue
            else:
                contstr = contstr + line
                contline = contline + line
                continue

        elif parenlev == 0 and not continued:  # new statement
            if not line: break
            column = 0
            while pos < max:                   # measure leading whitespace
                if line[pos] == ' ':
                    column += 1
                elif line[pos] == '\t':
                    column = (column//tabsize + 1)*tabsize
                elif line[pos] == '\f':
                    column = 0
                else:
                    break
                pos += 1
            if pos == max:
                break

            if line[pos] in '#\r\n':           # skip comments or blank lines
                if line[pos] == '#':
                    comment_token = line[pos:].rstrip('\r\n')
                    yield TokenInfo(COMMENT, comment_token,
                           (lnum, pos), (lnum, pos + len(comment_token)), line)
                    pos += len(comment_token)

                yield TokenInfo(NL, line[pos:],
                           (lnum, pos), (lnum, len(line)), line)
                continue

            if column > indents[-1]:           # count indents or dedents
                indents.append(column)
                yield TokenInfo(INDENT, line[:pos], (lnum, 0), (lnum, pos), line)
            while column < indents[-1]:
                if column not in indents:
                    raise IndentationError(
                        "unindent does not match any outer indentation level",
                        ("<tokenize>", lnum, pos, line))
                indents = indents[:-1]

                yield TokenInfo(DEDENT, '', (lnum, pos), (lnum, pos), line)

        else:                                  # continued statement
            if not line:
                raise TokenError("EOF in multi-line statement", (lnum, 0))
            continued = 0

        while pos < max:
            pseudomatch = _compile(PseudoToken).match(line, pos)
            if pseudomatch:                                # scan for tokens
                start, end = pseudomatch.span(1)
                spos, epos, pos = (lnum, start), (lnum, end), end
                if start == end:
                    continue
                token, initial = line[start:end], line[start]

                if (initial in numchars or                 # ordinary number
                    (initial == '.' and token != '.' and token != '...')):
                    yield TokenInfo(NUMBER, token, spos, epos, line)
                elif initial in '\r\n':
                    if parenlev > 0:
                        yield TokenInfo(NL, token, spos, epos, line)
                    else:
                        yield TokenInfo(NEWLINE, token, spos, epos, line)

                elif initial == '#':
                    assert not token.endswith("\n")
                    yield TokenInfo(COMMENT, token, spos, epos, line)

                elif token in triple_quoted:
                    endprog = _compile(endpats[token])
                    endmatch = endprog.match(line, pos)
                    if endmatch:                           # all on one line
                        pos = endmatch.end(0)
                        token = line[start:pos]
                        yield TokenInfo(STRING, token, spos, (lnum, pos), line)
                    else:
                        strstart = (lnum, start)           # multiple lines
                        contstr = line[start:]
                        contline = line
                        break

                # Check up to the first 3 chars of the token to see if
                #  they're in the single_quoted set. If so, they start
                #  a string.
                # We're using the first 3, because we're looking for
                #  "rb'" (for example) at the start of the token. If
                #  we switch to longer prefixes, this needs to be
                #  adjusted.
                # Note that initial == token[:1].
                # Also note that single quote checking must come after
                #  triple quote checking (above).
                elif (initial in single_quoted or
                      token[:2] in single_quoted or
                      token[:3] in single_quoted):
                    if token[-1] == '\n':                  # continued string
                        strstart = (lnum, start)
                        # Again, using the first 3 chars of the
                        #  token. This is looking for the matching end
                        #  regex for the correct type of quote
                        #  character. So it's really looking for
                        #  endpats["'"] or endpats['"'], by trying to
                        #  skip string prefix characters, if any.
                        endprog = _compile(endpats.get(initial) or
                                           endpats.get(token[1]) or
                                           endpats.get(token[2]))
                        contstr, needcont = line[start:], 1
                        contline = line
                        break
                    else:                                  # ordinary string
                        yield TokenInfo(STRING, token, spos, epos, line)

                elif initial.isidentifier():               # ordinary name
                    yield TokenInfo(NAME, token, spos, epos, line)
                elif initial == '\\':                      # continued stmt
                    continued = 1
                else:
                    if initial in '([{':
                        parenlev += 1
                    elif initial in ')]}':
                        parenlev -= 1
                    yield TokenInfo(OP, token, spos, epos, line)
            else:
                yield TokenInfo(ERRORTOKEN, line[pos],
                           (lnum, pos), (lnum, pos+1), line)
                pos += 1

    # Add an implicit NEWLINE if the input doesn't end in one
    if last_line and last_line[-1] not in '\r\n' and not last_line.strip().startswith("#"):
        yield TokenInfo(NEWLINE, '', (lnum - 1, len(last_line)), (lnum - 1, len(last_line) + 1), '')
    for indent in indents[1:]:                 # pop remaining indent levels
        yield TokenInfo(DEDENT, '', (lnum, 0), (lnum, 0), '')
    yield TokenInfo(ENDMARKER, '', (lnum, 0), (lnum, 0), '')


def generate_tokens(readline):
    """Tokenize a source reading Python code as unicode strings.

    This has the same API as tokenize(), except that it expects the *readline*
    callable to return str objects instead of bytes.
    """
    return _tokenize(readline, None)

def main():
    import argparse

    # Helper error handling routines
    def perror(message):
        sys.stderr.write(message)
        sys.stderr.write('\n')

    def error(message, filename=None, location=None):
        if location:
            args = (filename,) + location + (message,)
            perror("%s:%d:%d: error: %s" % args)
        elif filename:
            perror("%s: error: %s" % (filename, message))
        else:
            perror("error: %s" % message)
        sys.exit(1)

    # Parse the arguments and options
    parser = argparse.ArgumentParser(prog='python -m tokenize')
    parser.add_argument(dest='filename', nargs='?',
                        metavar='filename.py',
                        help='the file to tokenize; defaults to stdin')
    parser.add_argument('-e', '--exact', dest='exact', action='store_true',
                        help='display token names using the exact type')
    args = parser.parse_args()

    try:
        # Tokenize the input
        if args.filename:
            filename = args.filename
            with _builtin_open(filename, 'rb') as f:
                tokens = list(tokenize(f.readline))
        else:
            filename = "<stdin>"
            tokens = _tokenize(sys.stdin.readline, None)

        # Output the tokenization
        for token in tokens:
            token_type = token.type
            if args.exact:
                token_type = token.exact_type
            token_range = "%d,%d-%d,%d:" % (token.start + token.end)
            print("%-20s%-15s%-15r" %
                  (token_range, tok_name[token_type], token.string))
    except IndentationError as err:
        line, column = err.args[1][1:3]
        error(err.args[0], filename, (line, column))
    except TokenError as err:
        line, column = err.args[1]
        error(err.args[0], filename, (line, column))
    except SyntaxError as err:
        error(err, filename)
    except OSError as err:
        error(err)
    except KeyboardInterrupt:
        print("interrupted\n")
    except Exception as err:
        perror("unexpected error: %s" % err)
        raise

def _generate_tokens_from_c_tokenizer(source):
    """Tokenize a source reading Python code as unicode strings using the internal C tokenizer"""
    import _tokenize as c_tokenizer
    for info in c_tokenizer.TokenizerIter(source):
        tok, type, lineno, end_lineno, col_off, end_col_off, line = info
        yield TokenInfo(type, tok, (lineno, col_off), (end_lineno, end_col_off), line)


if __name__ == "__main__":
    main()
