"""entry point: ./check Cxx --tier quick|thorough [--replay file]"""
import argparse
import importlib
import os
import sys
import traceback

sys.path.insert(0, os.path.dirname(os.path.dirname(os.path.abspath(__file__))))
from harness import common  # noqa


def main():
    ap = argparse.ArgumentParser()
    ap.add_argument('pid')
    ap.add_argument('--tier', default=os.environ.get('VERIF_TIER', 'quick'), choices=['quick', 'thorough'])
    ap.add_argument('--replay', default=None)
    ap.add_argument('--no-proof', action='store_true', help='skip the Coq step (development only)')
    args = ap.parse_args()
    seed = int(os.environ.get('VERIF_SEED', '0') or 0)
    pid = args.pid.upper()
    mod = importlib.import_module('harness.props.' + pid.lower())
    if args.replay:
        return mod.replay(args.replay)
    ctx = common.Ctx(pid, args.tier, seed)
    try:
        if not args.no_proof:
            common.proof_step(ctx)
        mod.run(ctx)
    except Exception:
        # an internal error of the machinery is not a verdict: fail closed, loudly, without a VIOLATION line
        traceback.print_exc()
        print('[%s] INTERNAL ERROR of the check (no verdict)' % pid)
        sys.exit(2)
    sys.exit(common.finish(ctx))


if __name__ == '__main__':
    main()
