"""entry point: ./check Cxx --tier quick|thorough [--replay file]"""
import argparse
import importlib
import os
import sys
import traceback

sys.path.insert(0, os.path.dirname(os.path.dirname(os.path.abspath(__file__))))
from harness import common  # noqa


def main():
    ap = argparse.ArgumentParser()
    ap.add_argument('pid')
    ap.add_argument('--tier', default=os.environ.get('VERIF_TIER', 'quick'), choices=['quick', 'thorough'])
    ap.add_argument('--replay', default=None)
    ap.add_argument('--no-proof', action='store_true', help='skip the Coq step (development only)')
    args = ap.parse_args()
    seed = int(os.environ.get('VERIF_SEED', '0') or 0)
    pid = args.pid.upper()
    mod = importlib.import_module('harness.props.' + pid.lower())
    if args.replay:
        import json
        d = json.load(open(args.replay))
        if d.get('kind') in ('implementation-raised', 'watchdog', 'interface-changed'):
            # no input to re-run: re-run the whole check, which either aborts the same way again or gives its verdict
            print(d.get('what'), '\n', d.get('traceback', '')[-2000:])
            ctx = common.Ctx(pid, d.get('tier', 'quick'), int(d.get('seed', 0)))
            try:
                mod.run(ctx)
            except Exception as e:
                print('VIOLATION property=%s replay=%s no-failing-input-found' % (pid, args.replay))
                return 1
            return 1 if ctx.violations else 0
        return mod.replay(args.replay)
    ctx = common.Ctx(pid, args.tier, seed)
    # watchdog: a call into the implementation that never returns must give a verdict, not a hung check.  The limits are
    # 20-50x the normal duration of the slowest check of the tier.
    import threading
    limit = float(os.environ.get('VERIF_WATCHDOG_S', '') or (1800 if args.tier == 'quick' else 10800))

    def _expired():
        import multiprocessing
        for ch in multiprocessing.active_children():
            try:
                ch.terminate()
            except Exception:
                pass
        ctx.violation('watchdog', {'what': 'the check did not finish within %d s: some call into xdoctest does not return (or is slower by orders of magnitude)' % limit,
                      'theorem_or_correspondence': 'correspondence harness of %s (did not terminate)' % pid}, False)
        code = common.finish(ctx)
        sys.stdout.flush()
        os._exit(code)
    wd = threading.Timer(limit, _expired)
    wd.daemon = True
    wd.start()
    try:
        if not args.no_proof:
            common.proof_step(ctx)
        mod.run(ctx)
    except Exception as e:
        common.restore_streams()
        tb = ''.join(traceback.format_exception(type(e), e, e.__traceback__))     # includes a pool worker's remote traceback
        # the exception chain (a pool worker's remote traceback included), segment by segment: the innermost frame of each
        import re
        src = os.path.join(os.environ.get('XDOCTEST_REPO', '/repo'), 'src', 'xdoctest')
        inner = []
        for seg in re.split(r'\n(?:The above exception was the direct cause|During handling of the above exception)[^\n]*\n', tb):
            fl = [l.strip() for l in seg.split('\n') if l.strip().startswith('File "')]
            if fl:
                inner.append(fl[-1])
        files = [f for f in inner if f.startswith('File "' + src)]
        if files:
            # the exception was raised by xdoctest itself on an input for which the check expects it to return: the
            # correspondence between the model and the code no longer runs.  Not by itself a failing input.
            print(tb[-3000:])
            ctx.violation('implementation-raised', {'what': 'xdoctest raised %s where the check expects it to return; the harness could not continue' % type(e).__name__,
                          'traceback': tb[-6000:], 'theorem_or_correspondence': 'correspondence harness of %s (aborted by an exception raised in %s)' % (pid, files[-1][:200])},
                          False)
            sys.exit(common.finish(ctx))
        if isinstance(e, (AttributeError, ImportError, TypeError)) and 'xdoctest' in tb:
            # the harness can no longer drive the implementation: an attribute, function or signature it uses (also private
            # ones: _parts, failed_part, logged_stdout, ...) was renamed or removed.  The property may well still hold, but the
            # correspondence cannot be evaluated any more.
            print(tb[-3000:])
            ctx.violation('interface-changed', {'what': 'the harness cannot drive xdoctest any more (%s: %s)' % (type(e).__name__, str(e)[:300]),
                          'traceback': tb[-6000:], 'theorem_or_correspondence': 'correspondence harness of %s (interface it relies on changed)' % pid}, False)
            sys.exit(common.finish(ctx))
        # an internal error of the machinery is not a verdict: fail closed, loudly, without a VIOLATION line
        print(tb)
        print('[%s] INTERNAL ERROR of the check (no verdict)' % pid)
        sys.exit(2)
    sys.exit(common.finish(ctx))


if __name__ == '__main__':
    sys.exit(main())
