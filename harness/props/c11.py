"""C11 — Runs are isolated: a doctest behaves the same whatever ran before it.

Theorems: Props/C11.v (heap model of the directive state: for every history of runs the cells of the process-wide
defaults are never written; a fresh RuntimeState owns its sets; every update stays inside its own cells).
Correspondence: histories of RuntimeState constructions / updates (block and inline +-REQUIRES, +-SKIP, default
options or none) vs the extracted heap model: the REQUIRES set each state reads after every update and the contents
of directive.DEFAULT_RUNTIME_STATE after every run.
Search (model independent): histories (all orders of <=4, repetitions, subsets) of the doctests of a generated
module whose doctests define clashing names, read names only another doctest defines, rebind module globals,
leave SKIP / unmet REQUIRES switched on, replace sys.stdout, change warning filters - the same DocTest objects
re-run and fresh ones, with and without default options: each run's verdict, exception type and captured output
must equal that doctest's observation the first time it ran; module globals and DEFAULT_RUNTIME_STATE must be intact.
"""
import copy
import itertools
import json
import os
import shutil
import sys
import tempfile
import warnings

from harness import common
from harness.common import Sym

UNMET_A, UNMET_B, MET = '--xdverif-iso-a', 'module:xdverif_iso_no_such_mod', 'module:os'

MODULE = '''
GLOBAL_X = 'module-x'
GLOBAL_ANNOTATED: int = 1
COUNTER = [0]

def helper():
    return GLOBAL_X

def d_define():
    """
    >>> shared = 'from d_define'
    >>> print(shared)
    from d_define
    """

def d_read():
    """
    >>> print(shared)
    """

def d_rebind():
    """
    >>> GLOBAL_X = 'rebound'
    >>> helper = lambda: 'shadowed'
    >>> print(GLOBAL_X)
    rebound
    """

def d_uses_global():
    """
    >>> print('plain', GLOBAL_X, helper())
    plain module-x module-x
    """

def d_async_leaves_task():
    """
    A doctest that awaits and leaves a task behind that never got to run: it ends with this doctest

    >>> import asyncio
    >>> async def tick():
    ...     await asyncio.sleep(0)
    ...     print('tick left over from d_async_leaves_task')
    >>> async def spawn():
    ...     asyncio.ensure_future(tick())
    ...     asyncio.get_running_loop().call_later(0, print, 'callback left over')
    >>> await spawn()
    """

def d_async_reader():
    """
    >>> import asyncio
    >>> async def hello():
    ...     await asyncio.sleep(0)
    ...     await asyncio.sleep(0)
    ...     print('the reader is alone')
    >>> await hello()
    the reader is alone
    """

def d_echo_loop():
    """
    Values echoed from inside a compound statement (the interactive interpreter remembers the last one as `_`)

    >>> for i in range(2):
    ...     i + 40
    40
    41
    """

def d_read_underscore():
    """
    >>> print('last value:', _)
    last value: 41
    """

def d_lazy_skip():
    """
    A directive the parser leaves to the part itself (blanks between the prompt and the comment): the part finds it
    every time it is asked, not only the first time.

    >>>   # xdoctest: +SKIP
    >>> undefined_name_when_run
    >>> raise RuntimeError('this statement is switched off')
    """

def d_lazy_requires():
    """
    >>> print('head')
    head
    >>>   # xdoctest: +REQUIRES(module:xdverif_no_such_module_b)
    >>> raise RuntimeError('needs a module that is not there')
    """

def d_requires_env():
    """
    Runs only while an environment variable is set: what counts is the environment at the moment of THIS run

    >>> # xdoctest: +REQUIRES(env:XDVERIF_C11_FLAG)
    >>> print('guarded code ran')
    guarded code ran
    """

def d_annotates():
    """
    An annotated assignment at the top level of a doctest records the annotation in __annotations__ of ITS namespace

    >>> note: str = 'a'
    >>> print(note, sorted(__annotations__))
    a ['GLOBAL_ANNOTATED', 'note']
    """

def d_reads_annotations():
    """
    >>> print(sorted(__annotations__))
    ['GLOBAL_ANNOTATED']
    """

def d_closes_stdout():
    """
    Code that treats sys.stdout like a file it owns (a command line helper writing to '-') and closes it

    >>> import sys
    >>> with sys.stdout as out:
    ...     print('written to a stream that is then closed')
    """

def d_skip_on():
    """
    >>> print('ran')
    ran
    >>> # xdoctest: +SKIP
    >>> print('never')
    """

def d_requires_on():
    """
    >>> print('r')
    r
    >>> # xdoctest: +REQUIRES(--xdverif-iso-a)
    >>> print('never')
    """

def d_requires_two():
    """
    >>> # xdoctest: +REQUIRES(module:xdverif_iso_no_such_mod)
    >>> print('never')
    >>> # xdoctest: +REQUIRES(--xdverif-iso-a)
    """

def d_flags_on():
    """
    >>> # xdoctest: -ELLIPSIS, +IGNORE_WHITESPACE, -NORMALIZE_WHITESPACE
    >>> print('a b')
    ab
    """

def d_ellipsis():
    """
    >>> print('a long line of output')
    a long ... output
    >>> print('x  y')
    x y
    """

def d_stdout():
    """
    >>> import sys, io
    >>> sys.stdout = io.StringIO()
    >>> print('lost')
    """

def d_filters():
    """
    >>> import warnings
    >>> warnings.simplefilter('error')
    >>> print('w')
    w
    """

def d_fails():
    """
    >>> leftover = 'from a failing doctest'
    >>> print(1)
    2
    """

def d_read_leftover():
    """
    >>> print(leftover)
    """

def d_exit_early():
    """
    >>> print(sorted(k for k in globals() if k.startswith('tmp_')))
    []
    >>> tmp_first = 1
    >>> import xdoctest
    >>> raise xdoctest.ExitTestException()
    >>> print('never')
    """

def d_requires_dotted_missing():
    """
    >>> # xdoctest: +REQUIRES(module:json.xdverif_no_such_submodule)
    >>> print('never')
    """

def d_requires_dotted_present():
    """
    >>> # xdoctest: +REQUIRES(module:json.decoder)
    >>> print('present')
    present
    """

def d_requires_toplevel_present():
    """
    >>> # xdoctest: +REQUIRES(module:json)
    >>> print('json is there')
    json is there
    """
'''

# verdicts known by construction (whatever ran before, whatever the default options): the first observation in the
# process is not trusted for these, it may itself be polluted by process-wide state
EXPECT_VERDICT = {'d_async_leaves_task': 'passed', 'd_async_reader': 'passed', 'd_echo_loop': 'passed', 'd_read_underscore': 'failed', 'd_lazy_skip': 'skipped', 'd_lazy_requires': 'passed', 'd_requires_dotted_missing': 'skipped', 'd_requires_dotted_present': 'passed', 'd_requires_toplevel_present': 'passed',
                  'd_requires_two': 'skipped', 'd_define': 'passed', 'd_annotates': 'passed', 'd_reads_annotations': 'passed', 'd_uses_global': 'passed', 'd_read': 'failed', 'd_read_leftover': 'failed'}


def observe(ex, default_state):
    # the runner hands ONE options dict to every doctest of a run (config.update is shallow): share it here too
    ex.config['default_runtime_state'] = default_state if default_state else {}
    before_filters = list(warnings.filters)
    so = sys.stdout
    try:
        with warnings.catch_warnings():
            warnings.simplefilter('ignore')
            s = ex.run(on_error='return', verbose=0)
        res = ('passed' if s['passed'] else 'failed' if s['failed'] else 'skipped',
               type(s['exc_info'][1]).__name__ if s['exc_info'] else None,
               tuple(sorted((k, v) for k, v in ex.logged_stdout.items())))
    except BaseException as e:      # noqa
        res = ('raised', type(e).__name__, ())
    finally:
        if sys.stdout is not so:
            # the next doctest of the process would write to (and be captured from) whatever was left here
            res = res + ('sys.stdout left bound to %s%s' % (type(sys.stdout).__name__, ' (closed)' if getattr(sys.stdout, 'closed', False) else ''),)
        sys.stdout = so
        warnings.filters[:] = before_filters
    return res


def history_search(ctx):
    from xdoctest import core, directive
    tmp = tempfile.mkdtemp(prefix='xdverif_c11_')
    nv = 0
    try:
        path = os.path.join(tmp, 'xdverif_c11_mod.py')
        open(path, 'w').write(MODULE)
        pristine = copy.deepcopy(directive.DEFAULT_RUNTIME_STATE)
        # the usual situation: the directory of the tested module is itself on sys.path (a project run from its checkout), in
        # front of other entries; what a later doctest can import must not depend on the doctests run before it
        path_before = list(sys.path)
        sys.path.insert(0, tmp)
        path_pristine = list(sys.path)
        def collect():
            with warnings.catch_warnings():
                warnings.simplefilter('ignore')
                return {e.callname: e for e in core.parse_doctestables(path, style='freeform', analysis='static')}
        objs = collect()
        names = sorted(objs)
        rng = ctx.rng('histories')
        histories = []
        quick = ctx.tier == 'quick'
        for k in (2, 3):
            perms = list(itertools.permutations(names, k))
            rng.shuffle(perms)
            histories += [list(p) for p in perms[:(250 if quick else 3000)]]
        for _ in range(150 if quick else 3000):
            histories.append([rng.choice(names) for _ in range(rng.randint(4, 7))])     # repetitions
        baseline = {}
        mod_snapshot = None
        for hi, hist in enumerate(histories):
            dflt = [None, {'IGNORE_WHITESPACE': False}, {'ELLIPSIS': True, 'SKIP': False}][hi % 3]
            dflt_pristine = copy.deepcopy(dflt)
            fresh = collect() if hi % 4 == 0 else None
            for pos, name in enumerate(hist):
                ex = (fresh or objs)[name]
                # the environment changes between the runs (the harness flips a variable): a doctest that asks for it is judged by
                # the environment of its own run, however often the same object was run before
                flag = (hi * 7 + pos * 3) % 5 < 2
                if flag:
                    os.environ['XDVERIF_C11_FLAG'] = '1'
                else:
                    os.environ.pop('XDVERIF_C11_FLAG', None)
                obs = observe(ex, dflt)
                ctx.evaluations += 1
                key = (name, None if dflt_pristine is None else tuple(sorted(dflt_pristine.items())), flag if name == 'd_requires_env' else None)
                problem = None
                verdict = 'skipped' if (obs[0] == 'raised' and obs[1] == 'Skipped') else obs[0]     # an all-skipped doctest ends in pytest's Skipped
                if name == 'd_requires_env' and verdict != ('passed' if flag else 'skipped'):
                    problem = 'doctest d_requires_env is %s after %r although XDVERIF_C11_FLAG is %s at this run' % (verdict, hist[:pos], 'set' if flag else 'not set')
                elif name in EXPECT_VERDICT and verdict != EXPECT_VERDICT[name]:
                    problem = 'doctest %s is %s after %r; run alone in a fresh process it is %s by construction' % (name, verdict, hist[:pos], EXPECT_VERDICT[name])
                elif key not in baseline:
                    baseline[key] = obs
                elif obs != baseline[key]:
                    problem = 'doctest %s behaves differently after %r: %r, alone/first: %r' % (name, hist[:pos], obs, baseline[key])
                if len(obs) > 3:
                    problem = 'after doctest %s (run after %r) %s: every later doctest of the process inherits it' % (name, hist[:pos], obs[3])
                if dflt != dflt_pristine:
                    problem = 'the default options shared by the doctests of a run were changed by running %r: %r (were %r)' % (hist[:pos + 1], dflt, dflt_pristine)
                    dflt = copy.deepcopy(dflt_pristine)
                if directive.DEFAULT_RUNTIME_STATE != pristine:
                    problem = 'directive.DEFAULT_RUNTIME_STATE changed after running %r: %r' % (hist[:pos + 1], directive.DEFAULT_RUNTIME_STATE)
                    directive.DEFAULT_RUNTIME_STATE.clear()
                    directive.DEFAULT_RUNTIME_STATE.update(copy.deepcopy(pristine))
                if sys.path != path_pristine:
                    problem = 'sys.path (the module directory is its first entry) changed after running %r: now %r' % (
                        hist[:pos + 1], [('<module dir>' if e == tmp else e) for e in sys.path][:4] + ['...'] + [('<module dir>' if e == tmp else e) for e in sys.path][-2:])
                    sys.path[:] = path_pristine
                mod = sys.modules.get('xdverif_c11_mod')
                if mod is not None:
                    snap = (mod.GLOBAL_X, mod.helper(), sorted(k for k in vars(mod) if not k.startswith('__')), sorted(getattr(mod, '__annotations__', {})))
                    if mod_snapshot is None:
                        mod_snapshot = snap
                    elif snap != mod_snapshot:
                        problem = 'module globals changed after running %r: %r vs %r' % (hist[:pos + 1], snap, mod_snapshot)
                        mod_snapshot = snap
                if problem and nv < 5:
                    nv += 1
                    ctx.violation('history-dependence', {'what': problem[:1500], 'history': hist[:pos + 1], 'default_runtime_state': dflt,
                                  'module_source': MODULE, 'theorem_or_correspondence': 'C11 isolation on DocTest.run histories'}, True)
            ctx.nontrivial += 1
        ctx.count('histories', len(histories))
        ctx.count('distinct (doctest, defaults) baselines', len(baseline))
        ctx.extra['baselines'] = {'|'.join(str(x) for x in k): list(v[:2]) for k, v in list(baseline.items())[:40]}
    finally:
        shutil.rmtree(tmp, ignore_errors=True)
        sys.modules.pop('xdverif_c11_mod', None)
        if 'path_before' in locals():
            sys.path[:] = path_before


# ---------------------------------------------------------------------------
# annotations: a module whose __annotations__ exists but is EMPTY (its only annotations stand in a dead branch or annotate attributes),
# and a module without any: an annotated assignment in one doctest is never seen by the next, nor by the module
# ---------------------------------------------------------------------------
ANNOT_MODULES = ['if False:\n    rate: int\n', 'class Cfg: pass\ncfg = Cfg()\ncfg.limit: int = 3\n', 'PLAIN = 1\n', 'typed: int = 1\n']
ANNOT_DOCTESTS = '''
def a_first():
    """
    >>> total: int = 0
    >>> print('a', 'total' in __annotations__)
    a True
    """

def b_second():
    """
    >>> print('b', 'total' in globals().get('__annotations__', {}))
    b False
    """
'''


def annotation_leak(ctx):
    from xdoctest import core
    tmp = tempfile.mkdtemp(prefix='xdverif_c11a_')
    try:
        for mi, head in enumerate(ANNOT_MODULES):
            path = os.path.join(tmp, 'xdverif_c11_annot%d.py' % mi)
            open(path, 'w').write(head + ANNOT_DOCTESTS)
            with warnings.catch_warnings():
                warnings.simplefilter('ignore')
                exs = {e.callname: e for e in core.parse_doctestables(path, style='freeform', analysis='static')}
            for order in (['a_first', 'b_second'], ['b_second', 'a_first', 'b_second'], ['a_first', 'a_first', 'b_second']):
                obs = [observe(exs[n], None)[0] for n in order]
                ctx.evaluations += 1
                mod = sys.modules.get('xdverif_c11_annot%d' % mi)
                leaked = sorted(k for k in getattr(mod, '__annotations__', {}) if k == 'total') if mod is not None else []
                if obs != ['passed'] * len(order) or leaked:
                    ctx.violation('history-dependence', {
                        'what': 'module %r, doctests %r: outcomes %r (each passes alone by construction); the module\'s __annotations__ holds %r afterwards' % (
                            head, order, obs, leaked), 'module_source': head + ANNOT_DOCTESTS, 'history': order,
                        'theorem_or_correspondence': 'C11 isolation: annotations written by a doctest'}, True)
                    break
            sys.modules.pop('xdverif_c11_annot%d' % mi, None)
    finally:
        shutil.rmtree(tmp, ignore_errors=True)


# ---------------------------------------------------------------------------
# what the doctests of one project import must not depend on the doctests of another project that ran before: a project holds a file
# named like a library module that nobody has imported yet (colorsys.py, sndhdr.py); its own code imports that name
# ---------------------------------------------------------------------------
def shadow_import(ctx):
    from xdoctest import core
    tmp = tempfile.mkdtemp(prefix='xdverif_c11s_')
    path0 = list(sys.path)
    lib = 'colorsys'
    had = sys.modules.pop(lib, None)
    try:
        a, b = os.path.join(tmp, 'proj_a'), os.path.join(tmp, 'proj_b')
        os.makedirs(a)
        os.makedirs(b)
        open(os.path.join(a, lib + '.py'), 'w').write('# a project-local helper that happens to be called like a library module\nLOCAL = True\n')
        open(os.path.join(a, 'xdverif_c11_tool.py'), 'w').write('import %s\n\ndef tool():\n    """\n    >>> print(\'tool ran\')\n    tool ran\n    """\n' % lib)
        open(os.path.join(b, 'xdverif_c11_paint.py'), 'w').write('def paint():\n    """\n    >>> import %s\n    >>> print(hasattr(%s, \'rgb_to_hsv\'))\n    True\n    """\n' % (lib, lib))
        def one(path):
            with warnings.catch_warnings():
                warnings.simplefilter('ignore')
                return list(core.parse_doctestables(path, style='freeform', analysis='static'))[0]
        for order in (['paint'], ['tool', 'paint'], ['tool', 'tool', 'paint']):
            for k in [k for k in sys.modules if k == lib or k.startswith('xdverif_c11_tool') or k.startswith('xdverif_c11_paint')]:
                del sys.modules[k]
            obs = []
            for name in order:
                ex = one(os.path.join(a, 'xdverif_c11_tool.py') if name == 'tool' else os.path.join(b, 'xdverif_c11_paint.py'))
                obs.append(observe(ex, None)[0])
            ctx.evaluations += 1
            if obs[-1] != 'passed' or sys.path != path0:
                ctx.violation('history-dependence', {
                    'what': 'a doctest that imports the library module %r is %s after the doctests %r of ANOTHER project (which holds a file %s.py and imports it); alone it passes' % (
                        lib, obs[-1], order[:-1], lib), 'history': order, 'theorem_or_correspondence': 'C11 isolation: what a later doctest imports'}, True)
                break
    finally:
        sys.path[:] = path0
        for k in [k for k in sys.modules if k == lib or k.startswith('xdverif_c11_tool') or k.startswith('xdverif_c11_paint')]:
            del sys.modules[k]
        if had is not None:
            sys.modules[lib] = had
        shutil.rmtree(tmp, ignore_errors=True)


def collected_later(ctx):
    """what is left of an earlier run (objects kept alive only by reference cycles) is collected at some LATER moment - possibly in the
    middle of a later doctest: that doctest's outcome is the one it has alone"""
    from xdoctest import doctest_example
    import gc
    earlier = [">>> import sys\n>>> with sys.stdout as out:\n...     pass\n", ">>> import sys\n>>> sys.stdout.close()\n>>> print('into the closed stream')\n",
               ">>> raise ValueError('an ordinary failure')\n", ">>> print('x')\ny\n"]
    later = ">>> import gc\n>>> n = gc.collect(); print('after the collection')\nafter the collection\n>>> print('second part')\nsecond part\n"
    real, real_err = sys.stdout, sys.stderr
    was_enabled = gc.isenabled()
    try:
        gc.collect()
        gc.disable()                  # (so that the collection happens where the later doctest asks for it, not earlier by chance)
        alone = observe(doctest_example.DocTest(docsrc=later, lineno=1), None)[0]
        for first in earlier:
            for oe in ('return', 'raise'):
                ctx.evaluations += 1
                ex1 = doctest_example.DocTest(docsrc=first, lineno=1)
                ex1.mode = 'native'
                try:
                    with warnings.catch_warnings():
                        warnings.simplefilter('ignore')
                        ex1.run(on_error=oe, verbose=0)
                except BaseException:      # noqa
                    pass
                finally:
                    sys.stdout, sys.stderr = real, real_err
                ex1 = None
                got = observe(doctest_example.DocTest(docsrc=later, lineno=1), None)[0]
                sys.stdout, sys.stderr = real, real_err
                if got != alone or alone != 'passed':
                    ctx.violation('history-dependence', {
                        'what': 'a doctest that collects garbage and then prints is %s after an earlier doctest (on_error=%r) whose objects were dropped but not yet collected; alone it is %s' % (got, oe, alone),
                        'history': [first, later], 'theorem_or_correspondence': 'C11 isolation: remains of an earlier run collected during a later one'}, True)
                    return
    finally:
        sys.stdout, sys.stderr = real, real_err
        if was_enabled:
            gc.enable()


def moved_cwd(ctx):
    """a module named by a RELATIVE path (as `python -m xdoctest pkg/mod.py` names it): an earlier doctest that leaves the process in
    another working directory must not decide whether a later doctest of that module can still pre-import it"""
    from xdoctest import core
    tmp = os.path.realpath(tempfile.mkdtemp(prefix='xdverif_c11w_'))
    cwd0 = os.getcwd()
    path0 = list(sys.path)
    try:
        os.makedirs(os.path.join(tmp, 'proj', 'sub'))
        os.makedirs(os.path.join(tmp, 'elsewhere'))
        src = ('import os\n\nVALUE = 41\n\ndef mover():\n    """\n    >>> os.chdir(%r)\n    >>> print(VALUE)\n    41\n    """\n\n'
               'def later():\n    """\n    >>> print(VALUE + 1)\n    42\n    """\n' % os.path.join(tmp, 'elsewhere'))
        open(os.path.join(tmp, 'proj', 'sub', 'xdverif_c11_moves.py'), 'w').write(src)
        for rel in (os.path.join('sub', 'xdverif_c11_moves.py'), os.path.join('.', 'sub', 'xdverif_c11_moves.py'), os.path.join('sub', '..', 'sub', 'xdverif_c11_moves.py')):
            for order in (['later'], ['mover', 'later'], ['mover', 'mover', 'later']):
                os.chdir(os.path.join(tmp, 'proj'))
                for k in [k for k in sys.modules if k.startswith('xdverif_c11_moves')]:
                    del sys.modules[k]
                with warnings.catch_warnings():
                    warnings.simplefilter('ignore')
                    exs = {e.callname: e for e in core.parse_doctestables(rel, style='freeform', analysis='static')}
                obs = [observe(exs[name], None)[0] for name in order]
                ctx.evaluations += 1
                if obs[-1] != 'passed' or obs[:-1] != ['passed'] * (len(order) - 1):
                    ctx.violation('history-dependence', {
                        'what': 'module given as the relative path %r: after the doctests %r (which change the working directory) the doctest later() is %s; alone it passes '
                                '(observations %r)' % (rel, order[:-1], obs[-1], obs), 'history': order, 'module_source': src, 'relative_path': rel,
                        'theorem_or_correspondence': 'C11 isolation: the working directory left by an earlier doctest'}, True)
                    return
    finally:
        os.chdir(cwd0)
        sys.path[:] = path0
        for k in [k for k in sys.modules if k.startswith('xdverif_c11_moves')]:
            del sys.modules[k]
        shutil.rmtree(tmp, ignore_errors=True)


# ---------------------------------------------------------------------------
# RuntimeState histories vs the heap model
# ---------------------------------------------------------------------------
EFFECTS = [('REQUIRES', True, UNMET_A), ('REQUIRES', False, UNMET_A), ('REQUIRES', True, UNMET_B), ('REQUIRES', False, UNMET_B),
           ('REQUIRES', True, MET), ('SKIP', True, None), ('SKIP', False, None)]


def unit_histories(ctx):
    from xdoctest import directive
    rng = ctx.rng('unit')
    pristine = copy.deepcopy(directive.DEFAULT_RUNTIME_STATE)
    reqs = []
    impls = []
    for _ in range(1500 if ctx.tier == 'quick' else 30000):
        runs_m = []
        runs_i = []
        for _r in range(rng.randint(1, 4)):
            dflt = rng.choice([None, {}, {'SKIP': False}, {'IGNORE_WHITESPACE': True}, {'SKIP': False, 'ELLIPSIS': False}])
            rs = directive.RuntimeState(dflt)
            parts_m = []
            tr = []
            alive = True
            for _p in range(rng.randint(0, 4)):
                inl = rng.random() < 0.5
                effs = [rng.choice(EFFECTS) for _ in range(rng.choice([1, 1, 2]))]
                es = []
                dirs = []
                for name, pos, arg in effs:
                    dirs.append(directive.Directive(name, pos, [arg] if arg else [], inline=inl))
                    if name == 'SKIP':
                        es.append([Sym('assign'), inl, name, pos])
                    elif arg != MET:
                        es.append([Sym('set'), inl, pos, name, arg])
                parts_m.append(es)
                if not alive:
                    tr.append(Sym('dead'))
                    continue
                try:
                    rs.update(dirs)
                    tr.append(sorted(rs['REQUIRES']))
                except Exception:
                    alive = False
                    tr.append(Sym('raised'))
            runs_m.append([[[k, bool(v)] for k, v in (dflt or {}).items()], parts_m])
            runs_i.append([tr, sorted(directive.DEFAULT_RUNTIME_STATE['REQUIRES'])])
            # a state created NOW reads the defaults, whatever the states before it were last told (also inline)
            fresh = directive.RuntimeState().to_dict()
            if fresh != pristine:
                diff = sorted(k for k in set(fresh) | set(pristine) if fresh.get(k) != pristine.get(k))
                ctx.violation('defaults-written', {'what': 'a RuntimeState created after these updates of OTHER states does not read the defaults: differs in %r' % (diff,),
                              'runs': repr(runs_m), 'theorem_or_correspondence': 'C11 fresh state owns its cells (heap model) on directive.RuntimeState'}, True)
                return
            if directive.DEFAULT_RUNTIME_STATE != pristine:
                ctx.violation('defaults-written', {'what': 'directive.DEFAULT_RUNTIME_STATE changed by RuntimeState updates: %r' % (directive.DEFAULT_RUNTIME_STATE,),
                              'runs': repr(runs_m), 'theorem_or_correspondence': 'C11_defaults_never_written on directive.RuntimeState'}, True)
                directive.DEFAULT_RUNTIME_STATE.clear()
                directive.DEFAULT_RUNTIME_STATE.update(copy.deepcopy(pristine))
                return
        reqs.append(('hs_history', runs_m))
        impls.append(runs_i)
    ans = common.model_batch(reqs)
    nv = 0
    for req, imp, a in zip(reqs, impls, ans):
        ctx.evaluations += 1
        model = [[[sorted(x) if isinstance(x, list) else x for x in run[0]], sorted(run[1])] for run in a]
        if any(len(r[0]) > 1 for r in imp):
            ctx.nontrivial += 1
        if model != imp:
            ctx.corr_failures.append(req)
            if nv < 4:
                nv += 1
                ctx.violation('heap-correspondence', {'what': 'RuntimeState histories differ from the heap model: impl %r model %r' % (imp, model),
                              'runs': repr(req[1]), 'theorem_or_correspondence': 'correspondence hs_init/hs_update (feeds C11_defaults_never_written)'}, False)


# ---------------------------------------------------------------------------
# the pytest plugin: doctests of one text file / one module, run in sequence in one process
# ---------------------------------------------------------------------------
# block -> (doctest lines, verdict by construction: it is the verdict of the block run alone)
PT_BLOCKS = {
    'binds_fails': ([">>> leaked = 41", ">>> print(leaked + 1)", "43"], 'failed'),
    'binds_passes': ([">>> other = 1", ">>> print(other)", "1"], 'passed'),
    'binds_raises': ([">>> zed = 5", ">>> raise ValueError('x')"], 'failed'),
    'reads_leaked': ([">>> print('value', leaked)", "value 41"], 'failed'),
    'reads_other': ([">>> print('value', other)", "value 1"], 'failed'),
    'reads_zed': ([">>> print('value', zed)", "value 5"], 'failed'),
    'reads_dunder': ([">>> print('running as', __name__ == '__main__' or __name__.startswith('xdverif'))", "running as True"], 'passed'),
    'skip_block': ([">>> # xdoctest: +SKIP", ">>> print('never')"], 'skipped'),
    'plain': ([">>> print('plain')", "plain"], 'passed'),
}
PT_LINE = __import__('re').compile(r'^\S+::\S+ (PASSED|FAILED|SKIPPED|ERROR)')


def _pytest_sequence(job):
    """runs one file holding the blocks in the given order through the pytest plugin; -> statuses in file order"""
    import subprocess
    tmp, idx, kind, seq = job
    d = os.path.join(tmp, 'pt%d' % idx)
    os.makedirs(d, exist_ok=True)
    if kind == 'txt':
        name = 'xdverif_c11_%d.txt' % idx
        lines = ['A text file with doctests', '']
        for b in seq:
            lines += ['Example:'] + ['    ' + l for l in PT_BLOCKS[b][0]] + ['']
        opts = ['--xdoctest-glob=*.txt', '--xdoctest-style=google']
    else:
        name = 'xdverif_c11_%d.py' % idx
        lines = []
        for j, b in enumerate(seq):
            lines += ['def f%d():' % j, '    r"""'] + ['    ' + l for l in PT_BLOCKS[b][0]] + ['    """', '']
        opts = ['--xdoctest', '--xdoctest-style=freeform']
    src = '\n'.join(lines) + '\n'
    open(os.path.join(d, name), 'w').write(src)
    env = dict(os.environ)
    env['PYTHONPATH'] = os.path.join(common.REPO, 'src')
    env.pop('PYTEST_ADDOPTS', None)
    cmd = [sys.executable, '-m', 'pytest', '-v', '-p', 'no:cacheprovider', '-p', 'no:doctest', '-p', 'no:randomly', '-c', os.devnull,
           '--rootdir', d] + opts + [name]
    p = subprocess.run(cmd, cwd=d, env=env, stdout=subprocess.PIPE, stderr=subprocess.STDOUT, timeout=300)
    out = p.stdout.decode(errors='replace')
    st = []
    for line in out.split('\n'):
        m = PT_LINE.match(line)
        if m:
            st.append({'PASSED': 'passed', 'FAILED': 'failed', 'SKIPPED': 'skipped', 'ERROR': 'error'}[m.group(1)])
    return kind, list(seq), st, src, out[-1500:]


def pytest_histories(ctx):
    rng = ctx.rng('pytest-histories')
    names = sorted(PT_BLOCKS)
    seqs = [('binds_fails', 'reads_leaked'), ('binds_passes', 'reads_dunder'), ('binds_raises', 'reads_zed', 'plain'),
            ('binds_passes', 'reads_other', 'reads_dunder'), ('skip_block', 'plain', 'reads_dunder'), ('reads_leaked', 'binds_fails', 'reads_leaked')]
    for _ in range(10 if ctx.tier == 'quick' else 150):
        seqs.append(tuple(rng.choice(names) for _k in range(rng.randint(2, 5))))
    tmp = tempfile.mkdtemp(prefix='xdverif_c11pt_')
    try:
        jobs = [(tmp, i, kind, seq) for i, (kind, seq) in enumerate((k, s) for s in seqs for k in ('txt', 'py'))]
        results = common.pmap(_pytest_sequence, jobs, chunksize=1)
    finally:
        shutil.rmtree(tmp, ignore_errors=True)
    nv = 0
    for kind, seq, st, src, tail in results:
        ctx.evaluations += 1
        ctx.nontrivial += 1
        ctx.count('pytest:%s' % kind)
        expect = [PT_BLOCKS[b][1] for b in seq]
        if st != expect and nv < 4:
            nv += 1
            ctx.violation('pytest-history', {
                'what': 'doctests of one %s run in sequence by the pytest plugin: blocks %r have (alone, by construction) the verdicts %r but got %r' % (
                    'text file' if kind == 'txt' else 'module', seq, expect, st),
                'file_kind': kind, 'sequence': seq, 'file_source': src, 'pytest_tail': tail,
                'theorem_or_correspondence': 'isolation of consecutive doctests under the pytest plugin (plugin.py collect/runtest)'}, True)


def run(ctx):
    unit_histories(ctx)
    history_search(ctx)
    annotation_leak(ctx)
    shadow_import(ctx)
    moved_cwd(ctx)
    collected_later(ctx)
    pytest_histories(ctx)
    ctx.add_rule('RuntimeState: seeded histories of 1..4 states (default options none/{}/booleans) x 0..4 updates (block/inline, +-REQUIRES unmet a/b/met, +-SKIP) vs the heap model; '
                 'DocTest histories: permutations of 2 and 3 of the 13 doctests of a generated module + seeded histories of 4..7 with repetitions, on re-used and fresh '
                 'DocTest objects, x 3 default-option settings: observation (verdict, exception type, logged stdout) vs the first observation of that doctest; '
                 'the pytest plugin on generated text files (google blocks) and modules holding sequences of 2..5 blocks that bind / read foreign names / fail / raise / skip: per-item verdicts vs the verdict of the block alone; '
                 'non-trivial = history / unit history with several updates')
    ctx.sample({'history': ['d_requires_on', 'd_uses_global', 'd_define', 'd_read'], 'module': 'see MODULE in harness/props/c11.py'})
    ctx.assumptions += ['exec() with a copied namespace dict does not write the module (CPython); in-place mutation of shared module objects is outside the statement',
                        'only returning runs (on_error=return) form the histories: a run that raises keeps its namespace (DocTest.run clears it on the normal path only)']


def replay(path):
    d = json.load(open(path))
    print(json.dumps({k: v for k, v in d.items() if k != 'module_source'}, indent=1)[:3000])
    if d.get('kind') == 'pytest-history':
        tmp = tempfile.mkdtemp(prefix='xdverif_c11pt_')
        try:
            kind, seq, st, src, tail = _pytest_sequence((tmp, 0, d.get('file_kind') or ('txt' if d['file_source'].startswith('A text') else 'py'), tuple(d['sequence'])))
        finally:
            shutil.rmtree(tmp, ignore_errors=True)
        expect = [PT_BLOCKS[b][1] for b in seq]
        print('sequence=%r expected=%r got=%r' % (seq, expect, st))
        if st != expect:
            print('VIOLATION property=C11 replay=%s' % path)
            return 1
        return 0
    if 'history' in d:
        from xdoctest import core, directive
        tmp = tempfile.mkdtemp(prefix='xdverif_c11r_')
        try:
            p = os.path.join(tmp, 'xdverif_c11_mod.py')
            open(p, 'w').write(d['module_source'])
            with warnings.catch_warnings():
                warnings.simplefilter('ignore')
                objs = {e.callname: e for e in core.parse_doctestables(p, style='freeform', analysis='static')}
                alone = {e.callname: e for e in core.parse_doctestables(p, style='freeform', analysis='static')}
            pristine = copy.deepcopy(directive.DEFAULT_RUNTIME_STATE)
            last = d['history'][-1]
            base = observe(alone[last], d.get('default_runtime_state'))
            for name in d['history'][:-1]:
                observe(objs[name], d.get('default_runtime_state'))
            after = observe(objs[last], d.get('default_runtime_state'))
            print('alone=%r\nafter history=%r\ndefaults intact=%r' % (base, after, directive.DEFAULT_RUNTIME_STATE == pristine))
            if base != after or directive.DEFAULT_RUNTIME_STATE != pristine:
                print('VIOLATION property=C11 replay=%s' % path)
                return 1
            return 0
        finally:
            shutil.rmtree(tmp, ignore_errors=True)
            sys.modules.pop('xdverif_c11_mod', None)
    print('VIOLATION property=C11 replay=%s' % path)
    return 1
