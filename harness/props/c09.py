"""C09 — Every failure is recorded and rendered; one bad doctest never aborts the run.

Theorems: Props/C09.v (with on_error=return the run-loop model always returns a summary, marked failed iff a
failure was recorded, for every outcome oracle with a doctest frame; every failure kind is recorded at its part;
the failing line is defined; the runner loop runs and reports every doctest when every run returns).
Correspondence: the real DocTest.run against the run-loop model on a fault matrix (failure kind x position x
surrounding shape), including failed_line_offset.
Search (model independent): for every cell: run(on_error='return') returns a summary marked failed;
repr_failure() returns text naming the exception type and the by-construction failing line, for verbosity 0..3;
failed_lineno() is that line in the file; doctest_module() on a module holding the bad doctest between two good
ones does not raise and reports 1 failed / 2 passed.
"""
import io
import json
import os
import shutil
import sys
import tempfile
import contextlib

from harness.common import Sym
from harness import common, gendoc, runmodel

PRELUDE = gendoc.PRELUDE + '''
class BadRepr:
    def __repr__(self):
        raise RuntimeError('no repr here')
def badrepr(k, show=False):
    TRACE.append(k)
    if show:
        print('shown')
    return BadRepr()
def called(k):
    TRACE.append(k)
    return inner_fail(k)
def inner_fail(k):
    raise KeyError('in module code %d' % k)
class FalsyError(Exception):
    # an exception object that is false in a boolean context, with a lineno and a text attribute of its own
    lineno = 1
    text = 'not the doctest'
    def __bool__(self):
        return False
    def __len__(self):
        return 0
'''

# failing blocks: (name, source lines (prompted), want lines, index of the failing line inside the block
#                  (source+want), exception type name, failure kind of the model)
def failing_blocks(k):
    B = []
    B.append(('wrong_output', [">>> print('right', t(%d))" % k], ['wrong'], 1, 'GotWantException', 'gotwant'))
    B.append(('wrong_output_multiline_want', [">>> print('a\\nb', t(%d))" % k], ['a', 'c'], 1, 'GotWantException', 'gotwant'))
    B.append(('blankline_want', [">>> print('x', t(%d))" % k], ['<BLANKLINE>'], 1, 'GotWantException', 'gotwant'))
    # wants with wildcards that fail in every way a wildcard want can fail: the piece between two wildcards is missing although both ends fit;
    # the start does not fit; the end does not fit; the pieces are there in the wrong order
    B.append(('wildcard_middle_missing', [">>> print('alpha gamma omega', t(%d))" % k], ['alpha ... beta ... omega %d' % k], 1, 'GotWantException', 'gotwant'))
    B.append(('wildcard_both_sides_missing', [">>> print('alpha gamma omega', t(%d))" % k], ['alpha ...beta... omega'], 1, 'GotWantException', 'gotwant'))
    B.append(('wildcard_wrong_order', [">>> print('one two three', t(%d))" % k], ['one ... three ... two ...'], 1, 'GotWantException', 'gotwant'))
    B.append(('wildcard_end_missing', [">>> print('alpha gamma', t(%d))" % k], ['alpha ... omega'], 1, 'GotWantException', 'gotwant'))
    B.append(('raise_direct', ['>>> t(%d)' % k, ">>> raise ValueError('direct')"], [], 1, 'ValueError', 'exception'))
    B.append(('raise_in_multiline', ['>>> z = [t(%d),' % k, '...      1 // 0,', '...      3]'], [], 1, 'ZeroDivisionError', 'exception'))
    B.append(('raise_in_called_code', ['>>> q = 1', '>>> called(%d)' % k], [], 1, 'KeyError', 'exception'))
    B.append(('raise_in_compound', ['>>> for i in range(2):', '...     t(%d)' % k, '...     int("x")'], [], 2, 'ValueError', 'exception'))
    B.append(('compile_return', ['>>> t(%d)' % k, '>>> return 5'], [], 1, 'SyntaxError', 'compile'))
    B.append(('compile_break', ['>>> break'], [], 0, 'SyntaxError', 'compile'))
    B.append(('compile_nonlocal', ['>>> a = 1', '>>> b = 2', '>>> nonlocal a'], [], 2, 'SyntaxError', 'compile'))
    B.append(('runtime_syntaxerror', ['>>> a = t(%d)' % k, ">>> eval('1 +')"], [], 1, 'SyntaxError', 'exception'))
    B.append(('runtime_syntaxerror_multiline', ['>>> a = 1', '>>> b = 2', ">>> compile('x = (\\n\\n\\n1 +', 'f', 'exec')"], [], 2, 'SyntaxError', 'exception'))
    B.append(('repr_raises', ['>>> badrepr(%d)' % k], ['something'], 0, 'ExtractGotReprException', 'extractrepr'))
    B.append(('repr_raises_after_output', ['>>> badrepr(%d, True)' % k], ['something'], 0, 'ExtractGotReprException', 'extractrepr'))
    B.append(('repr_raises_class_in_doctest', ['>>> class R%d:' % k, '...     def __repr__(self):', "...         raise TypeError('nope')",
                                              '>>> t(%d) and R%d()' % (k, k)], ['5'], 3, 'ExtractGotReprException', 'extractrepr'))
    B.append(('bad_directive', ['>>> t(%d)  # xdoctest: +REQUIRES(module:a:b)' % k], [], 0, 'Exception', 'directive'))
    B.append(('bad_directive_lazy', ['', '>>>   # xdoctest: +REQUIRES(', ''], [], 1, 'Exception', 'directive'))
    # a warning recorded for the doctest before it fails (code that warns is ordinary)
    B.append(('warns_then_wrong_output', ['>>> import warnings', ">>> warnings.warn('careful %d')" % k, ">>> print('right', t(%d))" % k], ['wrong'], 3,
              'GotWantException', 'gotwant'))
    B.append(('warns_then_raises', ['>>> import warnings', ">>> warnings.warn('careful %d', RuntimeWarning)" % k, '>>> t(%d)' % k,
                                    ">>> raise ValueError('after the warning')"], [], 3, 'ValueError', 'exception'))
    # the doctest frame goes on executing clean-up code while the exception unwinds: the failing line is the raising one
    B.append(('raise_in_try_finally', ['>>> try:', "...     raise ValueError('tf %d')" % k, '... finally:', '...     cleanup = t(%d)' % k, '...     cleanup = 2'], [], 1,
              'ValueError', 'exception'))
    B.append(('raise_nonmatching_except', ['>>> try:', '...     t(%d)' % k, "...     raise ValueError('ne')", '... except KeyError:', '...     pass', '... finally:', '...     done = 1'],
              [], 2, 'ValueError', 'exception'))
    B.append(('called_code_in_try_finally', ['>>> try:', '...     called(%d)' % k, '... finally:', '...     z = 0'], [], 1, 'KeyError', 'exception'))
    # texts that are dangerous as format strings / templates: percent signs, braces, backslashes in output, want and message
    B.append(('wrong_output_percent_table', [">>> print('a 10%%\\nb 20%%\\nc 30%%\\nd 40%% {0} {x} \\\\d', t(%d))" % k], ['a 10%', 'b 20%', 'c 99%', 'd 40% {0} {x} \\d ' + str(k)], 1,
              'GotWantException', 'gotwant'))
    B.append(('raise_percent_message', ['>>> t(%d)' % k, ">>> raise ValueError('100%% wrong: %%s %%d {} {0} \\\\1')"], [], 1, 'ValueError', 'exception'))
    B.append(('raise_falsy_exception', ['>>> q = 1', '>>> t(%d)' % k, ">>> raise FalsyError('nothing in it')"], [], 2, 'FalsyError', 'exception'))
    # the failing part has put something else into sys.stdout and fails before putting the stream back (a closed file, a dead buffer):
    # the failure is still recorded, rendered and reported through the runner's own stream
    B.append(('raise_with_stdout_closed', ['>>> import os, sys', ">>> with open(os.devnull, 'w') as sys.stdout:", '...     t(%d)' % k, "...     raise ValueError('inside the with')"],
              [], 3, 'ValueError', 'exception'))
    B.append(('raise_with_stdout_replaced', ['>>> import io, sys', '>>> sys.stdout = io.StringIO(); t(%d); sys.stdout.close(); raise KeyError("gone")' % k], [], 1, 'KeyError', 'exception'))
    B.append(('traceback_want_mismatch', ['>>> boom(%d)' % k], ['Traceback (most recent call last):', 'KeyError: other'], 1, 'GotWantException', 'gotwant'))
    # output with control characters a terminal would interpret (backspaces of a spinner, a lone carriage return, a bell): comparing and
    # rendering the mismatch is a failure like any other
    B.append(('wrong_output_backspaces', [">>> print(chr(8) + '/' + chr(8) * 3 + 'x', t(%d))" % k], ['wrong'], 1, 'GotWantException', 'gotwant'))
    B.append(('wrong_output_bell_cr', [">>> print(chr(7) + 'a' + chr(13) + chr(8), t(%d))" % k], ['wrong', 'lines'], 1, 'GotWantException', 'gotwant'))
    # the documented exception TYPE is wrong: a failure under every setting, also when only the type is compared
    B.append(('traceback_wrong_type_ignore_detail', ['>>> # xdoctest: +IGNORE_EXCEPTION_DETAIL', '>>> boom(%d)' % k],
              ['Traceback (most recent call last):', 'KeyError: whatever the message'], 2, 'GotWantException', 'gotwant'))
    B.append(('traceback_wrong_type_ignore_detail_inline', ['>>> boom(%d)  # xdoctest: +IGNORE_EXCEPTION_DETAIL' % k],
              ['Traceback (most recent call last):', 'pkg.KeyError: whatever'], 1, 'GotWantException', 'gotwant'))
    # ... also when the raised exception has no message at all (its final line holds no colon)
    B.append(('traceback_wrong_type_no_message_ignore_detail', ['>>> # xdoctest: +IGNORE_EXCEPTION_DETAIL', '>>> t(%d)' % k, '>>> raise ValueError'],
              ['Traceback (most recent call last):', 'KeyError: whatever'], 3, 'GotWantException', 'gotwant'))
    B.append(('traceback_wrong_type_no_message_either_inline', ['>>> t(%d)' % k, '>>> raise ValueError  # xdoctest: +IGNORE_EXCEPTION_DETAIL'],
              ['Traceback (most recent call last):', 'KeyError'], 2, 'GotWantException', 'gotwant'))
    return B


HELPER_LONG = ['>>> def helper(a):', '...     b = a + 1', '...     c = b * 2', '...     d = c - 3', "...     raise IndexError('from helper')"]
HELPER_SHORT = ['>>> def helper(a): raise IndexError("from helper")']


def build_cases(ctx):
    quick = ctx.tier == 'quick'
    rng = ctx.rng('matrix')
    cases = []
    names = [b[0] for b in failing_blocks(0)]
    for bi, name in enumerate(names):
        for pos in ('first', 'middle', 'last'):
            for shape in ('plain', 'wants', 'multiline', 'skipped'):
                if quick and rng.random() < 0.35 and not (pos == 'middle' and shape == 'wants'):
                    continue
                cases.append(make_case(bi, pos, shape))
    # helper defined by an earlier part, longer / shorter than the failing part
    for helper, hname in ((HELPER_LONG, 'long'), (HELPER_SHORT, 'short')):
        for pos in ('first', 'middle', 'last'):
            for failing in (['>>> helper(1)'], ['>>> u = 1', '>>> v = [helper(2),', '...      0]'], ['>>> if True:', '...     helper(3)']):
                lines = list(helper)
                lines += [">>> print('ok')", 'ok']
                if pos != 'first':
                    lines += gendoc.Stmt('print2', 50).render() + ['o50a', 'o50b 50']
                start = len(lines)
                lines += failing
                fail_line = start + max(i for i, l in enumerate(failing) if 'helper(' in l)
                if pos != 'last':
                    lines += gendoc.Stmt('assign', 60).render()
                cases.append(dict(name='helper_%s' % hname, doc='\n'.join(lines), fail_line=fail_line, exc='IndexError',
                                  kind='exception', pos=pos, shape='helper'))
    # random surroundings: programs of the C01 statement grammar (every output matched by a correct want, so that the
    # failing block meets an empty buffer) in front of and behind a failing block
    nb = len(names)
    for n in range(150 if quick else 3000):
        before = [gendoc.Stmt(rng.choice(gendoc.ALL_KINDS), 10 + i) for i in range(rng.randint(0, 4))]
        after = [gendoc.Stmt(rng.choice(gendoc.ALL_KINDS), 60 + i) for i in range(rng.randint(0, 3))]
        style = rng.choice(['ps1', 'ps2'])
        def lay(stmts):
            out = []
            for j, st in enumerate(stmts):
                out += st.render(style, 0)
                cw = gendoc.correct_wants(stmts, j, j)
                if st.out or (st.is_expr and st.val is not None):
                    out += (cw.get('all') or cw.get('repr') or '').split('\n') if (cw.get('all') or cw.get('repr')) else []
                elif rng.random() < 0.2:
                    out.append('')
            return out
        bl = lay(before)
        name, src, want, rel, exc, kind = failing_blocks(30)[rng.randrange(nb)]
        if name == 'bad_directive_lazy' and not bl:
            bl = ['>>> t(9)']
        lines = bl + src + want + lay(after)
        cases.append(dict(name=name, doc='\n'.join(lines), fail_line=len(bl) + rel, exc=exc, kind=kind,
                          pos='random', shape='random'))
    return cases


def make_case(bi, pos, shape):
    k = 30
    name, src, want, rel, exc, kind = failing_blocks(k)[bi]
    before, after = [], []
    if pos in ('middle', 'last'):
        if shape == 'plain':
            before = gendoc.Stmt('assign', 10).render()
        elif shape == 'wants':
            before = gendoc.Stmt('print', 10).render() + ['o10a 10'] + gendoc.Stmt('expr', 11).render() + ['1011']
        elif shape == 'multiline':
            before = gendoc.Stmt('multi', 10).render() + gendoc.Stmt('compound', 11).render() + ['c11a', 'c11b']
        elif shape == 'skipped':
            before = ['>>> t(10)  # xdoctest: +SKIP'] + gendoc.Stmt('assign', 11).render()
    elif shape != 'plain':
        after = gendoc.Stmt('print', 70).render() + ['o70a 70']
    if pos in ('first', 'middle'):
        after = after + gendoc.Stmt('assign', 80).render()
        if shape == 'skipped':
            after = after + ['>>> t(81)  # xdoctest: +SKIP']
    lines = before + src + want + after
    return dict(name=name, doc='\n'.join(lines), fail_line=len(before) + rel, exc=exc, kind=kind, pos=pos, shape=shape)


def render_checks(c, ex, lineno, reports=None):
    """repr_failure for verbosity-independent rendering + failed_lineno"""
    problems = []
    if reports is not None:
        try:
            rr = runmodel.report_request(ex)
            if rr is not None:
                reports.append(rr)
        except Exception as e:
            problems.append('repr_failure() raised %s: %s' % (type(e).__name__, str(e)[:120]))
    try:
        off = ex.failed_line_offset()
        fl = ex.failed_lineno()
    except Exception as e:
        return ['failed_lineno() raised %s: %s' % (type(e).__name__, e)]
    if off != c['fail_line']:
        problems.append('failed_line_offset() = %r, the failing line by construction is %d (%r)' % (
            off, c['fail_line'], c['doc'].split('\n')[c['fail_line']]))
    if fl != lineno + c['fail_line']:
        problems.append('failed_lineno() = %r, expected %d' % (fl, lineno + c['fail_line']))
    for kw in (dict(), dict(with_tb=False)):
        try:
            buf = io.StringIO()
            with contextlib.redirect_stdout(buf):
                lines = ex.repr_failure(**kw)
            text = '\n'.join(lines)
        except Exception as e:
            problems.append('repr_failure(%r) raised %s: %s' % (kw, type(e).__name__, e))
            continue
        if ('REASON: ' + c['exc']) not in text:
            problems.append('failure report does not name the exception type %s' % c['exc'])
        if ('line %d <- wrt doctest' % (c['fail_line'] + 1)) not in text:
            problems.append('failure report does not name the failing line %d' % (c['fail_line'] + 1))
    return problems


def _worker(cases):
    from xdoctest import doctest_example
    out = []
    res = runmodel.run_both_many([dict(doc=c['doc'], prelude=PRELUDE) for c in cases])
    all_reports = []
    for c, (impl, model, df, ex0) in zip(cases, res):
        problems = []
        reports = []
        if impl['end'] != 'summary':
            problems.append('run(on_error=return) raised instead of returning a summary: %s' % impl['end'])
        elif not impl['failed'] or impl['passed']:
            problems.append('summary is not marked failed (failure kind %s)' % c['name'])
        elif impl['failure'] != c['kind']:
            problems.append('failure recorded as %s, expected %s' % (impl['failure'], c['kind']))
        # rendering at every verbosity, file-relative line numbers
        for verbose in (0, 1, 2, 3):
            ex = doctest_example.DocTest(docsrc=c['doc'], lineno=17, fpath='/nonexistent/fake_mod.py', callname='fn')
            ex.global_namespace['TRACE'] = []
            exec(PRELUDE, ex.global_namespace)
            buf = io.StringIO()
            try:
                with contextlib.redirect_stdout(buf):
                    s = ex.run(on_error='return', verbose=verbose)
            except BaseException as e:      # noqa
                problems.append('verbose=%d: run(on_error=return) raised %s: %s' % (verbose, type(e).__name__, str(e)[:80]))
                continue
            finally:
                sys.stdout = sys.__stdout__ if not isinstance(sys.stdout, io.TextIOBase) else sys.stdout
            if not s['failed']:
                problems.append('verbose=%d: not marked failed' % verbose)
                continue
            if verbose == 2:
                ex.config['offset_linenos'] = True      # numbers relative to the file in the part breakdown
            problems += ['verbose=%d: %s' % (verbose, p) for p in render_checks(c, ex, 17, reports if verbose in (0, 2) else None)]
        # on_error='raise': the recorded exception is what propagates
        ex = doctest_example.DocTest(docsrc=c['doc'], lineno=1)
        ex.global_namespace['TRACE'] = []
        exec(PRELUDE, ex.global_namespace)
        try:
            with contextlib.redirect_stdout(io.StringIO()):
                ex.run(on_error='raise', verbose=0)
            problems.append("on_error='raise' did not raise")
        except Exception as e:
            if ex.exc_info is None:
                problems.append("on_error='raise' raised %s without recording exc_info" % type(e).__name__)
        # failed_line_offset of the model
        mo = None
        if not df and impl['end'] == 'summary' and impl['failed']:
            pass
        all_reports.append(reports)
        impl['n_report_heads'] = len(reports)
        out.append([impl, model, df, sorted(set(problems))])
    # the head of the failure report (reason, location lines, part breakdown) against the model, line for line
    flat = [rr for reports in all_reports for rr in reports]
    answers = common.model_batch([rr[0] for rr in flat]) if flat else []
    pos = 0
    for o, reports in zip(out, all_reports):
        for (req, head) in reports:
            a = answers[pos]
            pos += 1
            m = a[1] if isinstance(a, list) and a and a[0] == Sym('some') else None
            if m != head:
                o[2] = list(o[2]) + [('repr_failure_head', repr(head)[:1500], repr(m)[:1500])]
    return [tuple(o) for o in out]


MODULE_TMPL = '''
def good_one():
    """
    >>> print('fine')
    fine
    """

def bad():
    r"""
%s
    """

def good_two():
    """
    >>> 1 + 1
    2
    """
'''


# module-level names of the module under test: ordinary globals, also ones that happen to be called like a __future__ feature
HEADERS = ['', '', "annotations = {'a': 1}\n", "division = 'north'\n", 'def generators():\n    return []\n', 'print_function = None\n',
           'import collections as nested_scopes\n', "__all__ = ['good_one', 'bad', 'good_two']\n", 'with_statement = absolute_import = 0\n']


def runner_checks(ctx, cases):
    """doctest_module on a module holding the bad doctest between two good ones + import failure module"""
    from xdoctest import runner
    tmp = tempfile.mkdtemp(prefix='xdverif_c09_')
    nviol = 0
    try:
        rng = ctx.rng('runner')
        picks = list(cases)
        if ctx.tier == 'quick':
            rng.shuffle(picks)
            first = {}
            for c in picks:
                first.setdefault(c['name'], c)          # every failure kind at least once
            rest = [c for c in picks if first[c['name']] is not c]
            picks = list(first.values()) + rest[:max(0, 48 - len(first))]
        for n, c in enumerate(picks):
            modname = 'xdverif_c09_mod_%d' % n
            path = os.path.join(tmp, modname + '.py')
            body = '\n'.join('    ' + l for l in c['doc'].split('\n'))
            modsrc = HEADERS[n % len(HEADERS)] + MODULE_TMPL % body
            with open(path, 'w') as f:
                f.write('TRACE = []\n' + PRELUDE + modsrc)
            for verbose in (0, 3) if ctx.tier == 'quick' else (0, 1, 2, 3):
                ctx.evaluations += 1
                buf = io.StringIO()
                try:
                    with contextlib.redirect_stdout(buf), contextlib.redirect_stderr(io.StringIO()):
                        rs = runner.doctest_module(path, command='all', argv=[], verbose=verbose)
                    got = (rs['n_total'], rs['n_failed'], rs['n_passed'], rs['n_skipped'], len(rs['failed']))
                    if got != (3, 1, 2, 0, 1):
                        raise AssertionError('tallies (total, failed, passed, skipped, len(failed)) = %r, expected (3, 1, 2, 0, 1)' % (got,))
                    out = buf.getvalue()
                    if verbose >= 1 and ('REASON: ' + c['exc']) not in out:
                        raise AssertionError('runner output does not name the exception type %s' % c['exc'])
                except BaseException as e:      # noqa
                    nviol += 1
                    if nviol <= 3:
                        ctx.violation('runner-aborted', {
                            'what': 'doctest_module(command=all, verbose=%d) on a module with one bad doctest between two good ones: %s: %s' % (
                                verbose, type(e).__name__, str(e)[:300]),
                            'module_source': modsrc, 'failure_kind': c['name'],
                            'theorem_or_correspondence': 'C09_others_still_run on runner.doctest_module'}, True)
        # import error of the module under test
        for verbose in (0, 2):
            modname = 'xdverif_c09_importfail_%d' % verbose
            path = os.path.join(tmp, modname + '.py')
            with open(path, 'w') as f:
                f.write('import xdverif_module_that_does_not_exist\n' + MODULE_TMPL % "    >>> print('x')\n    x")
            ctx.evaluations += 1
            try:
                with contextlib.redirect_stdout(io.StringIO()), contextlib.redirect_stderr(io.StringIO()):
                    rs = runner.doctest_module(path, command='all', argv=[], verbose=verbose, analysis='static')
                if (rs['n_total'], rs['n_failed']) != (3, 3):
                    raise AssertionError('import failure: tallies %r' % ((rs['n_total'], rs['n_failed'], rs['n_passed']),))
                for ex in rs['failed']:
                    lines = ex.repr_failure()
                    text = '\n'.join(lines)
                    if ('REASON: ' + ex.exc_info[0].__name__) not in text or 'ModuleNotFoundError' not in text:
                        raise AssertionError('import failure report does not name the exception type')
                    if ex.failed_lineno() != ex.lineno:
                        raise AssertionError('import failure: failed_lineno() is not the first line of the doctest')
            except BaseException as e:      # noqa
                ctx.violation('runner-aborted', {'what': 'module whose import fails: %s: %s' % (type(e).__name__, str(e)[:300]),
                              'failure_kind': 'import_error', 'theorem_or_correspondence': 'C09 import failure through doctest_module'}, True)
    finally:
        shutil.rmtree(tmp, ignore_errors=True)
        for k in [k for k in sys.modules if k.startswith('xdverif_c09_')]:
            del sys.modules[k]


def check_known_classes(ctx):
    """recorded defects of the unchanged tree, re-evaluated on the real code every run"""
    from xdoctest import doctest_example
    for e in common.load_known_findings('C09'):
        doc = e['witness']['doctest']
        so = sys.stdout
        ctx.evaluations += 1
        try:
            with contextlib.redirect_stdout(io.StringIO()):
                s = doctest_example.DocTest(docsrc=doc, lineno=1).run(on_error='return', verbose=0)
            still = False
            outcome = 'returns a summary (failed=%s)' % bool(s['failed'])
        except Exception as ex:      # noqa
            still = True
            outcome = 'raises %s' % type(ex).__name__
        finally:
            sys.stdout = so
        if still:
            ctx.known_finding('%s %s; e.g. doctest=%r (%s)' % (e['id'], e['what'], doc, outcome))
        else:
            ctx.notes.append('recorded finding %s no longer reproduces: %s' % (e['id'], outcome))


def run(ctx):
    check_known_classes(ctx)
    # 'on_error=return always returns a summary' also when the process's stdout is not a well-behaved file (a console that rejects text ...)
    from harness.props import c12
    c12.ambient_streams(ctx)
    cases = build_cases(ctx)
    chunks = [cases[i:i + 12] for i in range(0, len(cases), 12)]
    results = [r for ch in common.pmap(_worker, chunks) for r in ch]
    for c, (impl, model, df, problems) in zip(cases, results):
        ctx.evaluations += 6
        ctx.nontrivial += 1
        ctx.count('kind:' + c['name'])
        ctx.count('pos:' + c['pos'])
        ctx.count('shape:' + c['shape'])
        ctx.count('report_heads_vs_model', impl.get('n_report_heads', 0))
        if problems and len([v for v in ctx.violations if v['kind'] == 'failure-handling']) < 6:
            ctx.violation('failure-handling', {'what': '; '.join(problems)[:1500], 'doctest': c['doc'], 'case': c, 'impl': impl,
                          'theorem_or_correspondence': 'C09 fault matrix on DocTest.run / repr_failure'}, True)
        if df:
            ctx.corr_failures.append(c['doc'])
            if len([v for v in ctx.violations if v['kind'] == 'run-correspondence']) < 5:
                ctx.violation('run-correspondence', {
                    'what': 'DocTest.run differs from the run-loop model on: ' + ', '.join(k for k, _, _ in df),
                    'doctest': c['doc'], 'case': c, 'diff': [[k, repr(a), repr(b)] for k, a, b in df],
                    'theorem_or_correspondence': 'correspondence run (feeds C09_return_never_raises)'}, bool(problems))
    runner_checks(ctx, cases)
    ctx.add_rule('fault matrix: 18 failure kinds (wrong output, <BLANKLINE>-only want, exception direct / in a multi-line statement / in called code / '
                 'in a compound statement / in a helper of an earlier part (longer, shorter), compile-only errors, run-time SyntaxError, raising repr '
                 '(3 flavours), malformed directive, traceback-want mismatch) x position first/middle/last x surrounding shape x verbosity 0..3 x '
                 'on_error return/raise; doctest_module on a module with the bad doctest between two good ones; import failure module; '
                 'evaluations counts runs; non-trivial = matrix cells')
    ctx.sample({'doctest': cases[5]['doc'], 'kind': cases[5]['name'], 'failing_line': cases[5]['fail_line']})
    ctx.sample({'doctest': cases[-3]['doc'], 'kind': cases[-3]['name'], 'failing_line': cases[-3]['fail_line']})
    ctx.assumptions += ['the traceback of an exception raised by a part contains a frame of the doctest (HasDoctestFrame); a doctest that closes the capture stream is outside the fault list',
                        'SystemExit / KeyboardInterrupt propagate by design (C12)']


def replay(path):
    d = json.load(open(path))
    if d.get('kind') == 'capture-protocol':
        from harness.props import c12
        return c12.replay_capture_protocol(d, path, 'C09')
    if 'case' not in d:
        print(json.dumps(d, indent=1)[:3000])
        print('VIOLATION property=C09 replay=%s' % path)
        return 1
    impl, model, df, problems = _worker([d['case']])[0]
    print('doctest:\n%s\nimpl=%r\ndiff=%r\nproblems=%r' % (d['case']['doc'], impl, df, problems))
    if df or problems:
        print('VIOLATION property=C09 replay=%s' % path)
        return 1
    return 0
