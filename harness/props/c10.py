"""C10 — Native runner tallies and exit status agree with the per-doctest outcomes.

Theorems: Props/C10.v (tallies add up, failed list exact, exit status 1 iff some failure else 0, gathering for
all / one name, list).  Correspondence: runner.doctest_module and __main__.main on generated modules whose doctests have
by-construction outcomes, against the extracted Runner model (gather, run_examples, exit_status) fed with the
collected identifiers and the by-construction summaries.
Search (model independent): arithmetic identities and the by-construction outcome list on the real run_summary;
`list` output; a named doctest runs alone even if force-disabled; thorough: `python -m xdoctest` exit status.
"""
import contextlib
import io
import itertools
import json
import os
import shutil
import subprocess
import sys
import tempfile
import warnings

from harness import common, modgen
from harness.common import Sym


def expected_summary(kind):
    v = modgen.VERDICT[kind]
    return [Sym('summary'), v == 'passed', v == 'failed', v == 'skipped']


def run_module(path, ids, command, verbose, options=None):
    """-> (observations dict, problems list) for one command on one module"""
    from xdoctest import runner, core
    import xdoctest.__main__ as xmain
    problems = []
    buf = io.StringIO()
    try:
        with contextlib.redirect_stdout(buf), contextlib.redirect_stderr(io.StringIO()):
            rs = runner.doctest_module(path, command=command, argv=[], verbose=verbose, style='auto', analysis='static',
                                        config={'default_runtime_state': dict(options)} if options else None)
    except BaseException as e:      # noqa
        return None, ['doctest_module(%r) raised %s: %s' % (command, type(e).__name__, str(e)[:200])]
    out = buf.getvalue()
    obs = {'action': rs.get('action')}
    if command == 'list':
        listed = [l.strip() for l in out.split('\n') if l.startswith('    python -m xdoctest ')]
        obs['listed'] = [l.split(' ')[-1] for l in listed]
        obs['verbose'] = verbose
        return obs, problems
    if rs.get('action') == 'dump':
        # the command word wins over a callable of the same name: one test function per enabled doctest
        import re as _re
        obs['dumped'] = _re.findall(r'^def (test_\S+?)\(', out, _re.M)
        return obs, problems
    obs.update(n_total=rs['n_total'], n_passed=rs['n_passed'], n_failed=rs['n_failed'], n_skipped=rs['n_skipped'],
               failed=[e.unique_callname for e in rs['failed']])
    if rs['n_passed'] + rs['n_failed'] + rs['n_skipped'] != rs['n_total']:
        problems.append('passed+failed+skipped = %d+%d+%d != total %d' % (rs['n_passed'], rs['n_failed'], rs['n_skipped'], rs['n_total']))
    if len(rs['failed']) != rs['n_failed']:
        problems.append('failed list has %d entries, n_failed = %d' % (len(rs['failed']), rs['n_failed']))
    return obs, problems


def main_exit(path, command, options=None):
    """in-process __main__.main return value"""
    import xdoctest.__main__ as xmain
    try:
        with contextlib.redirect_stdout(io.StringIO()), contextlib.redirect_stderr(io.StringIO()):
            cwd = os.getcwd()
            os.chdir(os.path.dirname(path))       # main() reads pyproject.toml / pytest.ini of the cwd
            try:
                return xmain.main(argv=['xdoctest', path, command, '--analysis', 'static'] + (['--options=' + options] if options else []))
            finally:
                os.chdir(cwd)
    except SystemExit as e:
        return ('SystemExit', e.code)
    except BaseException as e:      # noqa
        return ('raised', type(e).__name__)


# the directory the module lives in: any legal directory name (braces, blanks, per cent signs, quotes, non-ASCII letters)
SUBDIRS = ['', 'plain', 'proj{v2}', 'with space', 'build{}tmp', '100%s done', 'caf\xe9', "it's", '{0}']


# default options that restate the built-in defaults: (--options text, default_runtime_state)
OPTIONS = [('+ELLIPSIS', {'ELLIPSIS': True}), ('-SKIP', {'SKIP': False}), ('-NORMALIZE_WHITESPACE', {'NORMALIZE_WHITESPACE': False})]


def _worker(job):
    tmp, idx, kinds, layout, verbose = job
    src, ids = modgen.module_source(kinds, layout)
    subdir = SUBDIRS[(idx // 3) % len(SUBDIRS)]
    os.makedirs(os.path.join(tmp, subdir), exist_ok=True)
    path = os.path.join(tmp, subdir, 'xdverif_c10_m%d.py' % idx)
    # every seventh module is saved with a byte-order mark, every eleventh with CRLF line ends (what editors on Windows write)
    with open(path, 'w', encoding='utf-8-sig' if idx % 7 == 3 else 'utf-8', newline='\r\n' if idx % 11 == 5 else None) as f:
        f.write(src)
    # queries must not have side effects: ask every doctest whether the pytest plugin would skip it (as a pytest session earlier
    # in the same process does) before the native runner is used
    from xdoctest import core as _core
    with warnings.catch_warnings():
        warnings.simplefilter('ignore')
        try:
            for _e in _core.parse_doctestables(path, analysis='static'):
                _e.is_disabled(pytest=True)
        except Exception:
            pass
    results = []
    # every other module is run with default options given (here: ones that restate the built-in defaults, so nothing else changes)
    opts = OPTIONS[(idx // 2) % len(OPTIONS)] if idx % 2 else None
    cmds = ['all', 'list'] + [u for u, _, _ in ids] + sorted(set(c for _, c, _ in ids)) + ['no_such_doctest']
    for cmd in cmds:
        obs, problems = run_module(path, ids, cmd, verbose, opts and opts[1])
        ex = main_exit(path, cmd, opts and opts[0]) if cmd in ('all',) or (cmd.endswith(':0') and idx % 3 == 0) else None
        results.append((cmd, obs, problems, ex))
    for k in [k for k in sys.modules if k.startswith('xdverif_c10_')]:
        del sys.modules[k]
    return (kinds, layout + (' @opts=' + opts[0] if opts else '') + ' @dir=' + subdir, ids, src, results)


def run(ctx):
    quick = ctx.tier == 'quick'
    tmp = tempfile.mkdtemp(prefix='xdverif_c10_')
    try:
        jobs = []
        idx = 0
        K = modgen.KINDS + modgen.NATIVE_ONLY_KINDS
        maxn = 2 if quick else 3
        for n in range(0, maxn + 1):
            for kinds in itertools.product(K, repeat=n):
                jobs.append((tmp, idx, list(kinds), 'functions', idx % 4))
                idx += 1
        rng = ctx.rng('modules')
        for _ in range(120 if quick else 1500):
            n = rng.randint(9, 40) if rng.random() < 0.08 else rng.randint(3, 8)
            jobs.append((tmp, idx, [rng.choice(K) for _ in range(n)], rng.choice(['functions', 'mixed', 'mixed']), rng.randint(0, 3)))
            idx += 1
        # many failures in one run: the failed list names every one of them
        for kinds in (['fail_output'] * 23 + ['pass'] * 3, ['pass'] + ['fail_exc'] * 21, ['fail_output', 'all_skipped', 'fail_exc'] * 14, ['warn_then_fail'] * 33):
            jobs.append((tmp, idx, list(kinds), 'functions', idx % 4))
            idx += 1
        # callables named like the runner's command words: the command still means what it says
        for special in ('all', 'dump', 'list'):
            for first in ('disabled', 'pass', 'fail_output', 'all_skipped'):
                for second in ('pass', 'disabled'):
                    jobs.append((tmp, idx, [first, second, 'pass'], 'special:' + special, idx % 4))
                    idx += 1
        results = common.pmap(_worker, jobs)
        reqs = []
        meta = []
        for kinds, layout, ids, src, res in results:
            exs = [[u, c, k == 'disabled'] for u, c, k in ids]
            for cmd, obs, problems, ex in res:
                if cmd == 'list':
                    mcmd = Sym('list')
                elif cmd == 'all':
                    mcmd = Sym('all')
                else:
                    mcmd = [Sym('name'), cmd]
                reqs.append(('gather', mcmd, [[c, u, d] for u, c, d in exs]))
                meta.append((kinds, layout, ids, src, cmd, obs, problems, ex))
        gathered = []
        for i in range(0, len(reqs), 3000):
            gathered += common.model_batch(reqs[i:i + 3000])
        reqs2 = []
        for (kinds, layout, ids, src, cmd, obs, problems, ex), g in zip(meta, gathered):
            kind_of = {u: k for u, _, k in ids}
            reqs2.append(('run_examples', [expected_summary(kind_of[u]) for u in g]))
        ran = []
        for i in range(0, len(reqs2), 3000):
            ran += common.model_batch(reqs2[i:i + 3000])
        nviol = {'tally': 0, 'corr': 0}
        for (kinds, layout, ids, src, cmd, obs, problems, ex), g, r in zip(meta, gathered, ran):
            ctx.evaluations += 1
            ctx.count('command:' + ('name' if cmd not in ('all', 'list') else cmd))
            if len(set(kinds)) > 1:
                ctx.nontrivial += 1
            payload = {'module_source': src, 'command': cmd, 'doctests': ids, 'observed': obs, 'layout': layout}
            if obs is None:
                problems = list(problems)
            elif cmd == 'list':
                if obs['verbose'] >= 1 and obs['listed'] != [u for u, _, _ in ids]:
                    problems.append('list printed %r, collected doctests are %r' % (obs['listed'], [u for u, _, _ in ids]))
            elif obs.get('action') == 'dump':
                enabled = [u for u, _, k in ids if k != 'disabled']
                if len(obs['dumped']) != len(enabled):
                    problems.append('dump emitted %d test functions %r for %d enabled doctests %r' % (len(obs['dumped']), obs['dumped'], len(enabled), enabled))
            else:
                total, npass, nfail, nskip, fidx, exitst = r
                model = dict(n_total=total, n_passed=npass, n_failed=nfail, n_skipped=nskip, failed=[g[i] for i in fidx])
                impl = {k: obs[k] for k in model}
                if impl != model:
                    ctx.corr_failures.append((kinds, cmd))
                    # is it a property violation? by-construction expectations, independent of the model:
                    kind_of = {u: k for u, _, k in ids}
                    if cmd == 'all':
                        should_run = [u for u, _, k in ids if k != 'disabled']
                    else:
                        should_run = [u for u, c, _ in ids if cmd in (u, c)]
                    exp_failed = [u for u in should_run if modgen.VERDICT[kind_of[u]] == 'failed']
                    if obs['n_total'] != len(should_run):
                        problems.append('command %r ran %d doctests, exactly %r must run' % (cmd, obs['n_total'], should_run))
                    if obs['failed'] != exp_failed:
                        problems.append('failed list %r, the doctests that fail by construction are %r' % (obs['failed'], exp_failed))
                    exp_counts = [sum(1 for u in should_run if modgen.VERDICT[kind_of[u]] == v) for v in ('passed', 'failed', 'skipped')]
                    if [obs['n_passed'], obs['n_failed'], obs['n_skipped']] != exp_counts:
                        problems.append('passed/failed/skipped = %r, by construction %r' % ([obs['n_passed'], obs['n_failed'], obs['n_skipped']], exp_counts))
                    if nviol['corr'] < 4:
                        nviol['corr'] += 1
                        ctx.violation('runner-correspondence', dict(payload, what='doctest_module differs from the Runner model: impl %r model %r' % (impl, model),
                                      theorem_or_correspondence='correspondence gather/run_examples (feeds C10_*)'), found_input=bool(problems))
                if ex is not None and ex != exitst:
                    ctx.corr_failures.append((kinds, cmd, 'exit'))
                    p = find_exit_violation(ctx, ex, obs)
                    if nviol['corr'] < 6:
                        nviol['corr'] += 1
                        ctx.violation('exit-status', dict(payload, what='__main__.main returned %r, model exit status %r (n_failed=%d)%s' % (
                            ex, exitst, obs['n_failed'], '; ' + p if p else ''),
                            theorem_or_correspondence='correspondence exit_status (C10_exit_status)'), found_input=bool(p) or (bool(ex) != bool(obs['n_failed'])))
            if problems and nviol['tally'] < 5:
                nviol['tally'] += 1
                ctx.violation('tallies', dict(payload, what='; '.join(problems)[:1200],
                              theorem_or_correspondence='C10 identities on runner.doctest_module'), True)
        if not quick:
            subprocess_checks(ctx, tmp, results)
    finally:
        shutil.rmtree(tmp, ignore_errors=True)
    ctx.add_rule('every module of <=%d doctests over 10 by-construction kinds (pass, fail by output, fail by exception, all skipped, partly skipped, '
                 'expected exception, force-disabled in 6 spellings, comment only) + seeded modules of 3..8 doctests in function/method/google-block '
                 'layouts x command in {all, list, every unique name, every bare callname, a missing name} x verbosity 0..3; non-trivial = '
                 'module with at least two different kinds' % (2 if quick else 3))
    ctx.sample({'kinds': results[30][0], 'commands': [r[0] for r in results[30][4]]})
    ctx.sample({'module_source': results[-1][3][:600]})
    ctx.assumptions += ['per-doctest verdicts are by construction (C02/C03 decide them); the zero-argument-function fallback for unmatched names is outside the model']


_EXIT_SEARCH = {}


def find_exit_violation(ctx, ex, obs):
    """the exit value is not the model's: look for a run where the PROCESS exit status breaks
    'non-zero iff some doctest failed' (the OS keeps the low 8 bits of the value)"""
    if not isinstance(ex, int):
        return 'main() did not return an int'
    if (ex != 0) != (obs['n_failed'] > 0):
        return 'non-zero iff failed is violated in-process'
    # (the search below does not depend on the run that disagreed: it is made once per check, whatever the number of disagreements)
    if 'answer' in _EXIT_SEARCH:
        return _EXIT_SEARCH['answer']
    _EXIT_SEARCH['answer'] = None
    tmp = tempfile.mkdtemp(prefix='xdverif_c10x_')
    try:
        for nfail in (256, 512):
            src, _ids = modgen.module_source(['fail_output'] * nfail, 'functions')
            path = os.path.join(tmp, 'xdverif_c10x_%d.py' % nfail)
            open(path, 'w').write(src)
            env = dict(os.environ)
            p = subprocess.run([sys.executable, '-m', 'xdoctest', path, 'all', '--analysis', 'static'], cwd=tmp, env=env,
                               stdout=subprocess.PIPE, stderr=subprocess.STDOUT)
            if p.returncode == 0:
                _EXIT_SEARCH['answer'] = 'python -m xdoctest on a module with %d failing doctests exits with status 0' % nfail
                return _EXIT_SEARCH['answer']
    finally:
        shutil.rmtree(tmp, ignore_errors=True)
    return None


def subprocess_checks(ctx, tmp, results):
    rng = ctx.rng('subprocess')
    picks = rng.sample(results, min(60, len(results)))
    for kinds, layout, ids, src, res in picks:
        path = os.path.join(tmp, 'xdverif_c10_sub.py')
        open(path, 'w').write(src)
        p = subprocess.run([sys.executable, '-m', 'xdoctest', path, 'all', '--analysis', 'static'], cwd=tmp,
                           stdout=subprocess.PIPE, stderr=subprocess.STDOUT)
        nfail = sum(1 for _, _, k in ids if modgen.VERDICT[k] == 'failed' and k != 'disabled')
        ctx.evaluations += 1
        if (p.returncode != 0) != (nfail > 0):
            ctx.violation('exit-status', {'what': 'python -m xdoctest exit status %d with %d failing doctests' % (p.returncode, nfail),
                          'module_source': src, 'theorem_or_correspondence': 'C10_exit_status on the subprocess'}, True)


def replay(path):
    d = json.load(open(path))
    tmp = tempfile.mkdtemp(prefix='xdverif_c10r_')
    try:
        subdir = d.get('layout', '').split(' @dir=')[1] if ' @dir=' in d.get('layout', '') else ''
        os.makedirs(os.path.join(tmp, subdir), exist_ok=True)
        p = os.path.join(tmp, subdir, 'xdverif_c10_replay.py')
        open(p, 'w').write(d['module_source'])
        lay = d.get('layout', '')
        opts = dict((o[0], o[1]) for o in OPTIONS).get(lay.split(' @opts=')[1].split(' @dir=')[0]) if ' @opts=' in lay else None
        obs, problems = run_module(p, d['doctests'], d['command'], 0, opts)
        obs2, problems2 = run_module(p, d['doctests'], d['command'], 2, opts)
        problems = list(problems) + [x for x in problems2 if x not in problems]
        print('command=%r observed=%r problems=%r (recorded: %s)' % (d['command'], obs, problems, d['what']))
        kind_of = {u: k for u, _, k in d['doctests']}
        if d['command'] == 'all':
            exp = [u for u, _, k in d['doctests'] if k != 'disabled']
            if obs and obs.get('n_total') != len(exp):
                problems.append('ran %r, expected %d' % (obs.get('n_total'), len(exp)))
        if problems or d['kind'] in ('exit-status', 'runner-correspondence'):
            print('VIOLATION property=C10 replay=%s' % path)
            return 1
    finally:
        shutil.rmtree(tmp, ignore_errors=True)
    return 0
