"""C02 — Got/want verdicts are exact: no false pass, no false fail.

Theorems: Props/C02.v (want satisfied iff a trailing portion of the output since the previous want,
or the value's repr, matches; no-want code never fails; fail-stop; exactly one of passed/failed/skipped).
Correspondence: the real DocTest.run (compile/exec/eval wrapped from outside) against the extracted run-loop
model fed with the recorded per-part outcomes: verdict, failure kind, failing part, executed/skipped parts,
logged stdout per part, unmatched buffer.
Search (model independent): doctests whose outputs are known by construction: every placement of correct
wants must pass with every statement run once in order; one corrupted want must fail with a got/want
error at that want, with every statement up to it run and none after it.
"""
import itertools
import json

from harness.common import Sym
from harness import common, gendoc, runmodel


def build_cases(ctx):
    quick = ctx.tier == 'quick'
    cases = []
    kinds = gendoc.KINDS
    # exhaustive: 1..2 statements (quick) / 1..3 (thorough), every subset of want positions,
    # every correct variant, every single corruption
    maxn = 2 if quick else 3
    for n in range(1, maxn + 1):
        for ks in itertools.product(kinds, repeat=n):
            stmts = [gendoc.Stmt(kd, 10 + i) for i, kd in enumerate(ks)]
            for mask in range(1, 2 ** n):
                positions = [j for j in range(n) if mask >> j & 1]
                cases.extend(want_variants(stmts, positions, exhaustive=True, rng=None))
    rng = ctx.rng('deep')
    nrand = 5000 if quick else 60000
    for _ in range(nrand):
        n = rng.randint(9, 40) if rng.random() < 0.03 else rng.randint(3, 8)
        stmts = [gendoc.Stmt(rng.choice(kinds + ['await_expr', 'async_await', 'with', 'try']), 10 + i) for i in range(n)]
        positions = [j for j in range(n) if rng.random() < 0.45]
        if not positions:
            positions = [rng.randrange(n)]
        cs = want_variants(stmts, positions, exhaustive=False, rng=rng)
        cases.extend(cs)
    # nothing ran: every part skipped
    for n in range(1, 4):
        stmts = [gendoc.Stmt('print', 10 + i) for i in range(n)]
        doc = '>>> # xdoctest: +SKIP\n' + gendoc.render_doc(stmts, {n - 1: 'o%da %d' % (10 + n - 1, 10 + n - 1)})
        cases.append(dict(doc=doc, expect='skipped', trace=[], stmts=n))
        doc = '\n'.join(l + '  # xdoctest: +SKIP' for s in stmts for l in s.render())
        cases.append(dict(doc=doc, expect='skipped', trace=[], stmts=n))
    cases.append(dict(doc='>>> # just a comment', expect='skipped', trace=[], stmts=0))
    # a want whose comparison is switched off (IGNORE_WANT) still ends the "output since the previous want" window
    for k0 in ('print', 'print2', 'printexpr'):
        for k2 in ('print', 'expr', 'printexpr'):
            for wrong_ignored in (False, True):
                for block in (False, True):
                    stmts = [gendoc.Stmt(k0, 10), gendoc.Stmt('print', 11), gendoc.Stmt(k2, 12)]
                    ignored_want = 'anything at all' if wrong_ignored else stmts[1].out.rstrip('\n')
                    if not block:
                        stmts[1].inline = '+IGNORE_WANT'
                    good = gendoc.correct_wants(stmts, 2, 2)
                    for name, text in sorted(good.items()):
                        for stale in (False, True):
                            w2 = (stmts[0].out + text) if stale else text
                            lines = stmts[0].render()
                            if block:
                                lines += ['>>> # xdoctest: +IGNORE_WANT']
                            lines += stmts[1].render() + ignored_want.split('\n')
                            if block:
                                lines += ['>>> # xdoctest: -IGNORE_WANT']
                            lines += stmts[2].render() + w2.rstrip('\n').split('\n')
                            if stale:
                                cases.append(dict(doc='\n'.join(lines), expect='gotwant', fail_stmt=2, trace=[10, 11, 12], corruption='stale-before-ignored-want', fail_line=None))
                            else:
                                cases.append(dict(doc='\n'.join(lines), expect='pass', trace=[10, 11, 12], variants=['ignore_want:' + name]))
    # ... also when the inline directive stands on a statement of several lines one of which holds only a remark (first or
    # last line carrying the directive): the switch ends with that statement, the next want is compared again
    for dir_last in (False, True):
        for k2 in ('print', 'expr', 'printexpr'):
            for flag, ignored_want in (('+IGNORE_WANT', 'anything at all'), ('+IGNORE_WANT', 'o11a 11')):
                stmts = [gendoc.Stmt('print', 10), gendoc.Stmt('print', 11), gendoc.Stmt(k2, 12)]
                first = ">>> print('o11a',"
                last = '...       t(11))'
                if dir_last:
                    last += '  # xdoctest: ' + flag
                else:
                    first += '  # xdoctest: ' + flag
                mid = ['...       # a remark about the next argument']
                good = gendoc.correct_wants(stmts, 2, 2)
                for name, text in sorted(good.items()):
                    for stale in (False, True):
                        w2 = (stmts[0].out + text) if stale else text
                        lines = stmts[0].render() + [first] + mid + [last] + (ignored_want.split('\n') if ignored_want else [])
                        lines += stmts[2].render() + w2.rstrip('\n').split('\n')
                        if stale:
                            cases.append(dict(doc='\n'.join(lines), expect='gotwant', fail_stmt=2, trace=[10, 11, 12], corruption='stale-before-ignored-want-multiline', fail_line=None))
                        else:
                            cases.append(dict(doc='\n'.join(lines), expect='pass', trace=[10, 11, 12], variants=['ignore_want_multiline:' + name]))
                        wrong = dict(doc='\n'.join(lines[:-len(w2.rstrip('\n').split('\n'))] + ['definitely not this']), expect='gotwant', fail_stmt=2, trace=[10, 11, 12],
                                     corruption='wrong-after-ignored-want-multiline', fail_line=None)
                        if not stale:
                            cases.append(wrong)
    # the same doctests written with Windows line ends (text read with newline='', a docstring that spells \\r\\n): the same verdicts
    for i, c in enumerate(list(cases)):
        if i % 9 == 4 and '\r' not in c['doc']:
            c2 = dict(c)
            c2['doc'] = c['doc'].replace('\n', '\r\n')
            c2['variants'] = list(c.get('variants', [])) + ['crlf']
            cases.append(c2)
    # a traceback want also ends the window: what a statement wrote before it raised the expected exception belongs to that
    # statement, not to the next want (and neither does output that was still unmatched in front of it)
    for k0 in (None, 'print', 'printexpr'):
        for k2 in ('print', 'expr', 'printexpr'):
            for quiet in (False, True):
                stmts = ([gendoc.Stmt(k0, 10)] if k0 else []) + [gendoc.Stmt(k2, 13)]
                raising = ('tn(11) or boom(12)' if quiet else 'pr(11) and boom(12)')
                written = '' if quiet else 'p11a\n'
                good = gendoc.correct_wants(stmts, len(stmts) - 1, len(stmts) - 1)
                for name, text in sorted(good.items()):
                    for stale in ((False, True) if (written or k0) else (False,)):
                        w2 = ((stmts[0].out if k0 else '') + written + text) if stale else text
                        lines = (stmts[0].render() if k0 else []) + ['>>> ' + raising, 'Traceback (most recent call last):', 'ValueError: bad']
                        lines += stmts[-1].render() + w2.rstrip('\n').split('\n')
                        trace = ([10] if k0 else []) + [11, 12, 13]
                        if stale and w2 != text:
                            cases.append(dict(doc='\n'.join(lines), expect='gotwant', fail_stmt=len(stmts), trace=trace, corruption='stale-before-expected-exception', fail_line=None))
                        elif not stale:
                            cases.append(dict(doc='\n'.join(lines), expect='pass', trace=trace, variants=['after_expected_exception:' + name]))
    # everything written since the previous want, when the lines are much longer than the want that describes them: columns padded
    # with long runs of blanks (written with single blanks in the want: NORMALIZE_WHITESPACE is on by default), coloured text
    for pad, deco in ((48, ''), (90, ''), (6, '\x1b[1;32m'), (200, ''), (6, '\x1b[?25l'), (6, '\x1b[38:2::255:0:0m'), (6, '\x1b[>4;2m')):
        for nfront in (1, 2):
            front = [gendoc.Stmt('print', 10 + i) for i in range(nfront)]
            k = 10 + nfront
            if deco:
                src = "print(%r * 9 + 'row' + %r * 9, t(%d))" % (deco, '\x1b[0m', k)
            else:
                src = "print('row'.ljust(%d), t(%d))" % (pad, k)
            lines = [l for st in front for l in st.render()] + ['>>> ' + src]
            body = ''.join(st.out for st in front) + 'row %d' % k
            trace = list(range(10, k + 1))
            cases.append(dict(doc='\n'.join(lines + body.split('\n')), expect='pass', trace=trace, variants=['padded_all']))
            cases.append(dict(doc='\n'.join(lines + ['row %d' % k]), expect='pass', trace=trace, variants=['padded_last']))
            cases.append(dict(doc='\n'.join(lines + (body + ' x').split('\n')), expect='gotwant', fail_stmt=nfront, trace=trace, corruption='padded-appended', fail_line=None))
    return cases


def want_variants(stmts, positions, exhaustive, rng):
    """docs with correct wants at `positions` (all variant combinations when exhaustive, one random
    combination otherwise) and docs with exactly one of them corrupted"""
    out = []
    opts = []
    lo = 0
    for j in positions:
        cw = gendoc.correct_wants(stmts, lo, j)
        if not cw:
            return []       # nothing printable to want at this position
        opts.append((j, lo, cw))
        lo = j + 1
    allks = [s.k for s in stmts]
    style = 'ps2'
    combos = list(itertools.product(*[sorted(cw.items()) for _, _, cw in opts]))
    if not exhaustive:
        combos = [rng.choice(combos)]
        style = rng.choice(['ps1', 'ps2'])
    for combo in combos:
        wants = {j: text for (j, _, _), (_name, text) in zip(opts, combo)}
        indent = 0 if exhaustive else rng.choice([0, 4])
        out.append(dict(doc=gendoc.render_doc(stmts, wants, style, indent), expect='pass', trace=allks,
                        variants=[nm for nm, _ in combo]))
        # single corruptions
        cidx = range(len(opts)) if exhaustive else [rng.randrange(len(opts))]
        for ci in cidx:
            j = opts[ci][0]
            lo_j = opts[ci][1]
            stale = stale_texts(stmts, lo_j, j)
            allhows = gendoc.CORRUPTIONS + sorted(stale)
            hows = allhows if exhaustive else [rng.choice(allhows)]
            for how in hows:
                bad = stale[how] if how in stale else gendoc.corrupt(wants[j], how)
                if bad is None:
                    continue
                w2 = dict(wants)
                w2[j] = bad
                out.append(dict(doc=gendoc.render_doc(stmts, w2, style, indent), expect='gotwant', fail_stmt=j,
                                trace=[s.k for s in stmts[:j + 1]], corruption=how,
                                fail_line=None))
    return out


def stale_texts(stmts, lo, j):
    """wrong wants made of text that was produced EARLIER in the same doctest (an earlier value's repr,
    an earlier statement's output that is not a trailing portion of the output since the previous want,
    the word None): adversarial instances of the 'replaced' corruption"""
    legit = set()
    for m in range(lo, j + 1):
        legit.add(''.join(s.out for s in stmts[m:j + 1]).rstrip('\n'))
    last = stmts[j]
    if last.is_expr:
        legit.add(last.val if last.val is not None else 'None')
    out = {}
    for i in range(j - 1, -1, -1):
        s = stmts[i]
        if s.is_expr and s.val is not None and s.val not in legit and 'stale_repr' not in out:
            out['stale_repr'] = s.val
        if s.out.strip() and s.out.rstrip('\n') not in legit and 'stale_out' not in out:
            out['stale_out'] = s.out.rstrip('\n')
        if s.is_expr and s.val is None and 'None' not in legit and 'stale_none' not in out:
            out['stale_none'] = 'None'
    return out


def _worker(cases):
    res = runmodel.run_both_many_safe([dict(doc=c['doc'], prelude=gendoc.PRELUDE) for c in cases])
    out = []
    for c, (impl, model, df, ex) in zip(cases, res):
        problem = expectation_problem(c, impl, ex)
        out.append((impl, model, df, problem))
    return out


def expectation_problem(c, impl, ex):
    """model-independent: the by-construction expectation evaluated on the real run"""
    if impl['end'] != 'summary':
        return 'run(on_error=return) did not return a summary: %s' % impl['end']
    flags = (impl['passed'], impl['failed'], impl['skipped'])
    if sum(1 for f in flags if f) != 1:
        return 'passed/failed/skipped not exclusive: %r' % (flags,)
    if c['expect'] == 'pass':
        if not impl['passed']:
            return 'all wants are correct but the doctest did not pass (failure=%s part=%s)' % (impl['failure'], impl['failed_part'])
        if impl['trace'] != c['trace']:
            return 'passing doctest executed %r, written statements are %r' % (impl['trace'], c['trace'])
    elif c['expect'] == 'gotwant':
        if impl['passed'] or not impl['failed']:
            return 'a corrupted want (%s) did not fail the doctest' % c['corruption']
        if impl['failure'] != 'gotwant':
            return 'corrupted want failed with %s instead of a got/want error' % impl['failure']
        if impl['trace'] != c['trace']:
            return 'got/want failure at statement %d: executed %r, expected exactly %r' % (c['fail_stmt'], impl['trace'], c['trace'])
    elif c['expect'] == 'skipped':
        if not impl['skipped'] or impl['passed'] or impl['failed']:
            return 'nothing ran but the doctest is not reported skipped: %r' % (flags,)
        if impl['trace'] != []:
            return 'skipped doctest executed %r' % (impl['trace'],)
    return None



# ---------------------------------------------------------------------------
# checker.check_got_vs_want at unit level, under every flag setting
# ---------------------------------------------------------------------------
GVW_NAMES = ['ELLIPSIS', 'NORMALIZE_WHITESPACE', 'IGNORE_WHITESPACE', 'NORMALIZE_REPR', 'DONT_ACCEPT_BLANKLINE']


class _Repr:
    def __init__(self, text):
        self.text = text

    def __repr__(self):
        return self.text


class _BadRepr:
    def __repr__(self):
        raise RuntimeError('no repr')


def _gvw_impl(want, out, ev, i):
    from xdoctest import checker, constants, directive
    rs = directive.RuntimeState({n: bool((i >> k) & 1) for k, n in enumerate(GVW_NAMES)})
    val = constants.NOT_EVALED if ev is None else (_BadRepr() if ev is False else _Repr(ev))
    try:
        return 'ok' if checker.check_got_vs_want(want, out, val, rs) else 'gotwant'
    except checker.GotWantException:
        return 'gotwant'
    except checker.ExtractGotReprException:
        return 'extractrepr'
    except Exception as e:
        return 'raised:' + type(e).__name__


def _gvw_worker(triples):
    reqs, impl = [], []
    for want, out, ev in triples:
        for i in range(32):
            fl = [bool((i >> k) & 1) for k in range(5)] + [False, False]
            mev = Sym('notevaled') if ev is None else (Sym('reprraises') if ev is False else [Sym('repr'), ev])
            reqs.append(('check_got_vs_want', fl, want, out, mev))
            impl.append(_gvw_impl(want, out, ev, i))
    return impl, [str(a) for a in common.model_batch(reqs)]


def gvw_unit(ctx):
    """(want, stdout, value) triples x 32 flag settings: implementation vs model, and -- independent of the model --
    every comparison made for one call must be made under the SAME flags: with ELLIPSIS off, renaming the marker
    '...' to 'ZZZ' everywhere must not change the answer; with it on, a want that is only the marker accepts"""
    rng = ctx.rng('gvw')
    texts = ['', 'a', 'a b', 'a  b', 'a...b', '...', 'a x b', 'a\nb', 'a\n\nb', 'a\n<BLANKLINE>\nb', "'a'", "u'a'", 'b b b', 'a bab b', 'a ... b', 'a b ',
             'a\n<BLANKLINE>', 'a\n\n', '<BLANKLINE>', '\n', 'a\n<BLANKLINE>\n', '<BLANKLINE>\na']
    triples = []
    for want in texts[1:]:
        for out in texts:
            for ev in (None, False, 'a', 'a x b', 'a bab b', "'a'", 'a  b', '...'):
                if rng.random() < (0.25 if ctx.tier == 'quick' else 1.0):
                    triples.append((want, out, ev))
    chunks = [triples[i:i + 60] for i in range(0, len(triples), 60)]
    found = []
    for ch, (impl, model) in zip(chunks, common.pmap(_gvw_worker, chunks)):
        for n, (want, out, ev) in enumerate(ch):
            for i in range(32):
                ctx.evaluations += 1
                a, m = impl[n * 32 + i], model[n * 32 + i]
                ctx.count('gvw:' + a)
                problem = None
                if not (i & 1) and '...' in (want + out + str(ev)):
                    ren = lambda t: t.replace('...', 'ZZZ') if isinstance(t, str) else t
                    b = _gvw_impl(ren(want), ren(out), ren(ev), i)
                    if a != b:
                        problem = "with ELLIPSIS off the marker '...' is not an ordinary text: the answer %s becomes %s when it is renamed" % (a, b)
                if a != m or problem:
                    found.append((0 if problem else 1, {'what': problem or 'check_got_vs_want = %s, model %s' % (a, m), 'want': want, 'stdout': out,
                                  'value_repr': ev, 'flags': {nme: bool((i >> k) & 1) for k, nme in enumerate(GVW_NAMES)},
                                  'theorem_or_correspondence': 'correspondence check_got_vs_want (feeds C02_want_iff; all comparisons of one part under that part\'s flags)'},
                                  bool(problem)))
    # a want that renders the output exactly as the REPL shows it (blank lines spelled <BLANKLINE>) is satisfied under
    # every flag setting that accepts the marker
    for out in ['a\n\n', 'a\n\nb\n', '\n', 'a\n\n\nb\n', '\n\na\n', 'a b\n\n', 'a\n' + '\n' * 9 + 'b\n', '\n\n'.join('p%d' % i for i in range(14)) + '\n',
                '\n\n'.join('q%d' % i for i in range(40)) + '\n\n']:
        body = out[:-1] if out.endswith('\n') else out
        want = '\n'.join(l if l else '<BLANKLINE>' for l in body.split('\n'))
        for i in range(16):          # DONT_ACCEPT_BLANKLINE (bit 4) off
            ctx.evaluations += 1
            a = _gvw_impl(want, out, None, i)
            if a != 'ok':
                found.append((0, {'what': 'a want that spells the blank lines of the output as <BLANKLINE> is rejected (%s)' % a, 'want': want, 'stdout': out,
                              'value_repr': None, 'flags': {nme: bool((i >> k) & 1) for k, nme in enumerate(GVW_NAMES)},
                              'theorem_or_correspondence': 'C02: a correct want never fails (blank-line marker)'}, True))
    found.sort(key=lambda x: x[0])        # inputs on which the property itself fails first
    for _, payload, has_input in found[:5]:
        ctx.violation('gvw-unit', payload, has_input)
    ctx.add_rule('check_got_vs_want on %d (want, stdout, value) triples (value absent / with a repr / whose repr raises) x 32 flag settings vs the model; marker renaming with ELLIPSIS off' % len(triples))


def run(ctx):
    gvw_unit(ctx)
    cases = build_cases(ctx)
    chunks = [cases[i:i + 200] for i in range(0, len(cases), 200)]
    results = [r for ch in common.pmap(_worker, chunks) for r in ch]
    seen = set()
    for c, (impl, model, df, problem) in zip(cases, results):
        ctx.evaluations += 1
        ctx.count('expect:' + c['expect'])
        if c.get('corruption'):
            ctx.count('corruption:' + c['corruption'])
        for v in c.get('variants', []):
            ctx.count('variant:' + v)
        ctx.count('impl:%s/%s' % (impl['end'], impl.get('failure')))
        if c['doc'] not in seen:
            seen.add(c['doc'])
            if c['expect'] != 'skipped':
                ctx.nontrivial += 1
        if problem and len([v for v in ctx.violations if v['kind'] == 'verdict']) < 5:
            ctx.violation('verdict', {'what': problem, 'doctest': c['doc'], 'expected': c['expect'],
                          'impl': impl, 'case': c, 'theorem_or_correspondence': 'by-construction verdict on DocTest.run'}, True)
        if df:
            ctx.corr_failures.append(c['doc'])
            if len([v for v in ctx.violations if v['kind'] == 'run-correspondence']) < 5:
                ctx.violation('run-correspondence', {
                    'what': 'DocTest.run differs from the run-loop model on: ' + ', '.join(k for k, _, _ in df),
                    'doctest': c['doc'], 'diff': [[k, repr(a), repr(b)] for k, a, b in df],
                    'theorem_or_correspondence': 'correspondence run (feeds C02_want_decides, C02_fail_stop, C02_pass_iff)'},
                    found_input=bool(problem))
    ctx.add_rule('doctests of 1..%d statements over %d statement kinds (incl. semicolon lines), every want placement x correct variant '
                 '(all output / last expression output / repr) x single corruption, exhaustively; plus seeded doctests of 3..8 '
                 'statements; plus all-skipped doctests; non-trivial = distinct doctest text that runs code'
                 % (2 if ctx.tier == 'quick' else 3, len(gendoc.KINDS)))
    ctx.sample({'doctest': cases[len(cases) // 2]['doc'], 'expect': cases[len(cases) // 2]['expect']})
    ctx.sample({'doctest': cases[-20]['doc'], 'expect': cases[-20]['expect']})
    ctx.assumptions += ['what a part prints / returns / raises is taken from the real run (compile/exec/eval observed from outside) and fed to the model as the outcome oracle',
                        'helper functions t/pr/tn are placed in the doctest namespace by the harness']


def replay_gvw(d, path, pid):
    want, out, ev = d['want'], d['stdout'], d['value_repr']
    i = sum((1 << k) for k, n in enumerate(GVW_NAMES) if d['flags'].get(n))
    a = _gvw_impl(want, out, ev, i)
    fl = [bool((i >> k) & 1) for k in range(5)] + [False, False]
    mev = Sym('notevaled') if ev is None else (Sym('reprraises') if ev is False else [Sym('repr'), ev])
    m = str(common.model_call('check_got_vs_want', fl, want, out, mev))
    ren = lambda t: t.replace('...', 'ZZZ') if isinstance(t, str) else t
    b = _gvw_impl(ren(want), ren(out), ren(ev), i) if not (i & 1) else a
    print('want=%r stdout=%r value=%r flags=%r: impl=%s model=%s renamed=%s' % (want, out, ev, d['flags'], a, m, b))
    if a != m or a != b:
        print('VIOLATION property=%s replay=%s' % (pid, path))
        return 1
    return 0


def replay(path):
    d = json.load(open(path))
    if d.get('kind') == 'gvw-unit':
        return replay_gvw(d, path, 'C02')
    doc = d.get('doctest')
    res = runmodel.run_both_many([dict(doc=doc, prelude=gendoc.PRELUDE)])
    impl, model, df, ex = res[0]
    print('doctest:\n%s\nimpl=%r\nmodel=%r\ndiff=%r' % (doc, impl, model, df))
    problem = expectation_problem(d['case'], impl, ex) if d.get('case') else None
    print('expectation problem:', problem)
    if df or problem:
        print('VIOLATION property=C02 replay=%s' % path)
        return 1
    return 0
