"""C15 — pytest plugin and native runner give the same verdict for every doctest.

Theorems: Props/C15.v (for every doctest and every behaviour of its parts the verdict of
run(on_error='raise', mode pytest)+anything_ran equals the verdict of run(on_error='return')+_post_run;
the two nothing-ran tests coincide; force-disabled = skipped vs omitted).
Correspondence: (1) in process: for generated doctests the native verdict and the emulated XDoctestItem.runtest
verdict (real is_disabled / run / anything_ran calls) against the extracted model's two verdict functions fed
with the recorded outcomes; (2) both front ends as subprocesses (pytest --xdoctest, python -m xdoctest <mod> all)
on generated modules x style x options: identifiers, per-identifier outcomes and exit codes compared.
"""
import json
import os
import re
import shutil
import subprocess
import sys
import tempfile

from harness import common, gendoc, modgen, runmodel
from harness.common import Sym

STYLES = ['auto', 'google', 'freeform']
OPTIONS = [None, '+IGNORE_WANT', '+SKIP', '-ELLIPSIS', '+IGNORE_WHITESPACE', 'env:+IGNORE_WANT', 'env:+SKIP', '+IGNORE_WANT,-ELLIPSIS', 'env:-NORMALIZE_WHITESPACE,+IGNORE_WANT']


# ---------------------------------------------------------------------------
# in-process: one doctest, two front-end verdicts, model
# ---------------------------------------------------------------------------
def pytest_side(doc, default_state):
    """what plugin.XDoctestItem.runtest does, with the real methods"""
    from xdoctest import doctest_example
    import _pytest.outcomes
    ex = doctest_example.DocTest(docsrc=doc, lineno=1)
    ex.mode = 'pytest'
    if default_state:
        ex.config['default_runtime_state'] = dict(default_state)
    ex.global_namespace['TRACE'] = []
    exec(gendoc.PRELUDE, ex.global_namespace)
    old = sys.stdout
    try:
        if ex.is_disabled(pytest=True):
            return 'skipped'
        try:
            ex.run(on_error='raise', verbose=0)
        except _pytest.outcomes.Skipped:
            return 'skipped'
        except (SystemExit, KeyboardInterrupt):
            return 'none'
        except BaseException:      # noqa
            return 'failed'
        if not ex.anything_ran():
            return 'skipped'
        return 'passed'
    finally:
        sys.stdout = old


def _inproc_worker(cases):
    out = []
    reqs = []
    for c in cases:
        impl, ex, rec = runmodel.run_impl(c['doc'], 'return', False, c.get('default'), prelude=gendoc.PRELUDE)
        if impl['end'] == 'summary':
            nat = 'failed' if impl['failed'] else 'skipped' if impl['skipped'] else 'passed'
        else:
            nat = 'none'
        pyt = pytest_side(c['doc'], c.get('default'))
        cfg = [Sym('return'), False, runmodel.default_state_enc(c.get('default')), runmodel.REPORT_KEY, True]
        reqs.append(('verdicts', cfg, runmodel.requires_table(ex._parts), runmodel.outcomes_for_model(ex, rec),
                     [runmodel.part_data(p) for p in ex._parts]))
        out.append([nat, pyt])
    ans = common.model_batch(reqs)
    return [(o, [str(a[0]), str(a[1])]) for o, a in zip(out, ans)]


def inproc_cases(ctx):
    quick = ctx.tier == 'quick'
    cases = []
    for kind in modgen.KINDS:
        if kind == 'disabled':
            continue
        for dflt in (None, {'SKIP': True}, {'IGNORE_WANT': True}):
            cases.append(dict(doc='\n'.join(modgen.doc_lines(kind, 3)), default=dflt, kind=kind))
    rng = ctx.rng('inproc')
    frag = ['>>> # remark', '>>> # xdoctest: +SKIP', '>>> # xdoctest: -SKIP', ">>> print('a')", 'a', 'b',
            ">>> print('c')  # xdoctest: +SKIP", '>>> x = 1', ">>> raise ValueError('v')", '>>> # xdoctest: +REQUIRES(--nope)',
            '>>> t(5)', '5', '>>> import pytest; pytest.skip()', '>>> tn(6)  # xdoctest: +SKIP', '']
    for _ in range(2500 if quick else 40000):
        n = rng.randint(1, 6)
        doc = '\n'.join(rng.choice(frag) for _ in range(n))
        if not doc.strip().startswith('>>>'):
            doc = '>>> y = 0\n' + doc
        cases.append(dict(doc=doc, default=rng.choice([None, None, {'SKIP': True}, {'IGNORE_WANT': True}]), kind='fragments'))
    return cases


# ---------------------------------------------------------------------------
# subprocess front ends
# ---------------------------------------------------------------------------
PYTEST_LINE = re.compile(r'^(\S+?\.py)::(\S+) (PASSED|FAILED|SKIPPED|ERROR)')
NATIVE_LINE = re.compile(r'^\* (SUCCESS|FAILURE|SKIPPED): (\S+?\.py)::(\S+)')


def front_ends(path, style, options):
    env = dict(os.environ)
    env['PYTHONPATH'] = os.path.join(common.REPO, 'src')
    cwd = os.path.dirname(path)
    cmd_p = [sys.executable, '-m', 'pytest', '-v', '-p', 'no:cacheprovider', '--xdoctest', '--xdoctest-style=' + style,
             '-p', 'no:randomly', os.path.basename(path)]
    cmd_n = [sys.executable, '-m', 'xdoctest', os.path.basename(path), 'all', '--style=' + style]
    if options and options.startswith('env:'):
        # the documented third way to give default options: the environment (XDOCTEST_OPTIONS), the same for both front ends
        env['XDOCTEST_OPTIONS'] = options[4:]
    elif options:
        cmd_p.append('--xdoctest-options=' + options)
        cmd_n.append('--options=' + options)
    p = subprocess.run(cmd_p, cwd=cwd, env=env, stdout=subprocess.PIPE, stderr=subprocess.STDOUT, timeout=300)
    n = subprocess.run(cmd_n, cwd=cwd, env=env, stdout=subprocess.PIPE, stderr=subprocess.STDOUT, timeout=300)
    pt = {}
    for line in p.stdout.decode(errors='replace').split('\n'):
        m = PYTEST_LINE.match(line)
        if m:
            pt[m.group(2)] = {'PASSED': 'passed', 'FAILED': 'failed', 'SKIPPED': 'skipped', 'ERROR': 'error'}[m.group(3)]
    nt = {}
    for line in n.stdout.decode(errors='replace').split('\n'):
        m = NATIVE_LINE.match(line)
        if m:
            nt[m.group(3)] = {'SUCCESS': 'passed', 'FAILURE': 'failed', 'SKIPPED': 'skipped'}[m.group(1)]
    return pt, p.returncode, nt, n.returncode, p.stdout.decode(errors='replace')[-1500:], n.stdout.decode(errors='replace')[-1500:]


# a name defined twice with another documented callable in between (overload stubs, alternative definitions): the doctests share a
# module-level list, so the ORDER in which a front end runs them decides their outcomes - both must use the same order
RAW_REDEFINITION = '''STATE = []

def lookup():
    """
    >>> print('stub')
    stub
    """

def register():
    """
    >>> STATE.append(1)
    >>> print(len(STATE))
    1
    """

def lookup():
    """
    >>> print(len(STATE))
    1
    """

def last():
    """
    >>> STATE.append(2)
    >>> print(len(STATE))
    2
    """
'''


def _sub_worker(job):
    tmp, idx, kinds, layout, style, options = job
    if layout == 'raw':
        d = os.path.join(tmp, 'raw%d' % idx)
        os.makedirs(d, exist_ok=True)
        path = os.path.join(d, 'xdverif_c15_m%d.py' % idx)
        open(path, 'w').write(kinds)
        pt, prc, nt, nrc, ptail, ntail = front_ends(path, style, options)
        return dict(kinds=['raw'], layout=layout, style=style, options=options, ids=[], src=kinds,
                    pytest=pt, pytest_rc=prc, native=nt, native_rc=nrc, ptail=ptail, ntail=ntail)
    # the module's directory: any legal name (blanks, braces, per cent signs, non-ASCII letters)
    d = os.path.join(tmp, ['m%d', 'dir with blank %d', 'proj{v%d}', '100%%s_%d', 'caf\xe9_%d'][idx % 5] % idx)
    os.makedirs(d, exist_ok=True)
    src, ids = modgen.module_source(kinds, layout)
    path = os.path.join(d, 'xdverif_c15_m%d.py' % idx)
    # every seventh module is saved with a byte-order mark, every eleventh with CRLF line ends (what editors on Windows write)
    with open(path, 'w', encoding='utf-8-sig' if idx % 7 == 3 else 'utf-8', newline='\r\n' if idx % 11 == 5 else None) as f:
        f.write(src)
    pt, prc, nt, nrc, ptail, ntail = front_ends(path, style, options)
    return dict(kinds=kinds, layout=layout, style=style, options=options, ids=ids, src=src,
                pytest=pt, pytest_rc=prc, native=nt, native_rc=nrc, ptail=ptail, ntail=ntail)


def compare_front_ends(r):
    """-> list of problems (property violations between the two front ends)"""
    problems = []
    disabled = {u for u, _, k in r['ids'] if k == 'disabled'}
    pt, nt = r['pytest'], r['native']
    # pytest reports disabled ones as skipped; native omits them
    for u in sorted(set(pt) | set(nt)):
        a, b = pt.get(u), nt.get(u)
        if u in disabled:
            if b is not None:
                problems.append('force-disabled doctest %s was run by the native runner (%s)' % (u, b))
            if a is not None and a != 'skipped':
                problems.append('force-disabled doctest %s is %s under pytest, expected skipped' % (u, a))
            continue
        if a is None or b is None:
            problems.append('doctest %s collected by only one front end (pytest=%s native=%s)' % (u, a, b))
        elif a != b:
            problems.append('doctest %s: %s under pytest but %s under the native runner' % (u, a, b))
    pf = any(v in ('failed', 'error') for v in pt.values())
    nf = any(v == 'failed' for v in nt.values())
    if pt and (r['pytest_rc'] != 0) != pf:
        problems.append('pytest exit status %d with failed=%s' % (r['pytest_rc'], pf))
    if (r['native_rc'] != 0) != nf:
        problems.append('native exit status %d with failed=%s' % (r['native_rc'], nf))
    if not pt and not nt and r['ids'] and r['options'] != '+SKIP':
        pass
    return problems


def run(ctx):
    quick = ctx.tier == 'quick'
    # ---- in process -------------------------------------------------------
    cases = inproc_cases(ctx)
    chunks = [cases[i:i + 100] for i in range(0, len(cases), 100)]
    results = [r for ch in common.pmap(_inproc_worker, chunks) for r in ch]
    nv = 0
    for c, (impl, model) in zip(cases, results):
        ctx.evaluations += 1
        ctx.count('inproc:native=%s/pytest=%s' % tuple(impl))
        if impl[0] != 'passed':
            ctx.nontrivial += 1
        differs = impl[0] != impl[1] and 'none' not in impl and not c['doc'].lstrip().lower().startswith('>>> # pytest.skip')
        if differs and nv < 5:
            nv += 1
            ctx.violation('verdicts-differ', {'what': 'native verdict %s, pytest verdict %s for the same doctest' % tuple(impl),
                          'doctest': c['doc'], 'default_runtime_state': c.get('default'),
                          'theorem_or_correspondence': 'C15_same_verdict on DocTest (is_disabled/run/anything_ran vs run/_post_run)'}, True)
        if impl != model:
            ctx.corr_failures.append(c['doc'])
            if len([v for v in ctx.violations if v['kind'] == 'verdict-correspondence']) < 4:
                ctx.violation('verdict-correspondence', {'what': 'front-end verdicts [native, pytest] %r, model %r' % (impl, model),
                              'doctest': c['doc'], 'default_runtime_state': c.get('default'),
                              'theorem_or_correspondence': 'correspondence native_verdict / pytest_verdict'}, differs)
    # ---- subprocess front ends ---------------------------------------------
    tmp = tempfile.mkdtemp(prefix='xdverif_c15_')
    try:
        rng = ctx.rng('modules')
        jobs = []
        nmods = 36 if quick else 600
        for idx in range(nmods):
            if idx < 3:
                kinds = list(modgen.KINDS) + list(modgen.REQ_MODULE_KINDS)
            else:
                kinds = [rng.choice(modgen.KINDS + modgen.REQ_MODULE_KINDS) for _ in range(rng.randint(2, 9))]
            if idx % 3 == 2:
                # one doctest that skips itself at run time through pytest's API, somewhere among the others
                kinds.insert(rng.randrange(0, len(kinds)), rng.choice(modgen.RUNTIME_SKIP_KINDS))
            if idx % 4 == 1:
                # one doctest that leaves the process in another working directory, somewhere in front of the others
                kinds.insert(rng.randrange(0, max(1, len(kinds) - 1)), rng.choice(modgen.SUBPROCESS_ONLY_KINDS))
            jobs.append((tmp, idx, kinds, rng.choice(['functions', 'mixed']), STYLES[idx % 3], OPTIONS[(idx // 3) % len(OPTIONS)]))
        # every kind that fails, as the ONLY failure of its module (the exit status and the tallies then depend on it alone); every
        # force-disable word (the remark is matched whatever its case)
        extra = [['pass', k, 'pass'] for k in modgen.KINDS if modgen.VERDICT.get(k) == 'failed' and k != 'disabled']
        extra += [['disabled'] * len(modgen.DISABLE_WORDS) + ['pass'], ['pass'] + ['disabled'] * len(modgen.DISABLE_WORDS)]
        for kinds in extra:
            jobs.append((tmp, len(jobs) + 1000, kinds, 'functions', ['auto', 'freeform'][len(jobs) % 2], ''))
        for st in ('auto', 'freeform'):
            jobs.append((tmp, len(jobs) + 1000, RAW_REDEFINITION, 'raw', st, ''))
        for k in modgen.RUNTIME_SKIP_KINDS:
            jobs.append((tmp, len(jobs) + 1000, ['pass', k, 'pass', 'fail_output'], 'functions', 'freeform', ''))
            jobs.append((tmp, len(jobs) + 1000, [k, 'pass'], 'functions', 'auto', ''))
        # a callable named like a command word of the native runner (all, dump, list), force-disabled or not: `all` still means all
        for special in ('all', 'dump', 'list'):
            for kinds in (['disabled', 'pass', 'pass'], ['disabled', 'fail_output', 'pass'], ['fail_output', 'pass'], ['pass', 'disabled']):
                jobs.append((tmp, len(jobs) + 1000, kinds, 'special:' + special, ['auto', 'freeform'][len(jobs) % 2], ''))
        # many failures in one module: the exit status is a small number that a process can report (256 failures are not "0")
        jobs.append((tmp, nmods, ['fail_output'] * 256 + ['pass'], 'functions', 'freeform', ''))
        jobs.append((tmp, nmods + 1, ['fail_exc'] * 512, 'functions', 'google', ''))
        sub = common.pmap(_sub_worker, jobs)
        ns = 0
        for r in sub:
            ctx.evaluations += 2
            ctx.count('sub:style=%s' % r['style'])
            ctx.count('sub:options=%s' % r['options'])
            if len(set(r['pytest'].values())) > 1:
                ctx.nontrivial += 1
            problems = compare_front_ends(r)
            if not r['pytest'] and not r['native'] and r['ids']:
                ctx.count('sub:nothing-parsed')
            if problems and ns < 5:
                ns += 1
                ctx.violation('front-ends-differ', {'what': '; '.join(problems)[:1200], 'module_source': r['src'], 'style': r['style'],
                              'options': r['options'], 'pytest': r['pytest'], 'native': r['native'],
                              'pytest_rc': r['pytest_rc'], 'native_rc': r['native_rc'], 'pytest_tail': r['ptail'][-600:], 'native_tail': r['ntail'][-600:],
                              'theorem_or_correspondence': 'C15 on the two command line front ends'}, True)
        parsed = sum(1 for r in sub if r['pytest'] and r['native'])
        ctx.extra['subprocess_modules_with_parsed_outcomes'] = parsed
        if parsed < len(sub) // 2:
            ctx.violation('harness-blind', {'what': 'outcome tables could not be parsed for most modules (%d of %d)' % (parsed, len(sub)),
                          'pytest_tail': sub[0]['ptail'], 'native_tail': sub[0]['ntail'],
                          'theorem_or_correspondence': 'subprocess front ends'}, False)
    finally:
        shutil.rmtree(tmp, ignore_errors=True)
    ctx.add_rule('in process: every by-construction doctest kind x default state + seeded doctests assembled from 15 line fragments '
                 '(remarks, block/inline SKIP, REQUIRES, wants right/wrong, raising, pytest.skip()): native verdict vs emulated XDoctestItem.runtest vs model; '
                 'subprocess: %d generated modules x style x options through pytest --xdoctest and python -m xdoctest all; non-trivial = verdict other than passed / module with mixed outcomes' % nmods)
    ctx.sample({'doctest': cases[40]['doc'], 'verdicts[native,pytest]': results[40][0]})
    ctx.sample({'module_kinds': sub[0]['kinds'], 'style': sub[0]['style'], 'options': sub[0]['options'], 'pytest': sub[0]['pytest'], 'native': sub[0]['native']})
    ctx.assumptions += ['pytest collection / reporting / exit status are pytest\'s (outside the model); XDoctestItem.runtest is emulated in process with the real methods and exercised for real in the subprocess part',
                        "a doctest starting with '>>> # pytest.skip' is disabled under pytest only and excluded (reading note)"]


def replay(path):
    d = json.load(open(path))
    if 'doctest' in d:
        c = dict(doc=d['doctest'], default=d.get('default_runtime_state'))
        impl, model = _inproc_worker([c])[0]
        print('doctest:\n%s\n[native, pytest] impl=%r model=%r' % (d['doctest'], impl, model))
        if impl != model or (impl[0] != impl[1] and 'none' not in impl):
            print('VIOLATION property=C15 replay=%s' % path)
            return 1
        return 0
    tmp = tempfile.mkdtemp(prefix='xdverif_c15r_')
    try:
        p = os.path.join(tmp, 'xdverif_c15_replay.py')
        open(p, 'w').write(d['module_source'])
        pt, prc, nt, nrc, _a, _b = front_ends(p, d['style'], d['options'])
        print('pytest=%r rc=%d\nnative=%r rc=%d' % (pt, prc, nt, nrc))
        diff = {u for u in set(pt) | set(nt) if pt.get(u) != nt.get(u) and not (pt.get(u) == 'skipped' and nt.get(u) is None)}
        if diff:
            print('VIOLATION property=C15 replay=%s' % path)
            return 1
    finally:
        shutil.rmtree(tmp, ignore_errors=True)
    return 0
