"""C07 — Collection is exact: every documented callable yields its doctests once.

Theorems: Props/C07.v (TopLevelVisitor over the syntax tree collects exactly the visible definitions, each under
one key, nothing nested / hidden / under the main guard; google = blocks in order, freeform <= 1, auto; the package
walk = exactly the files of the package tree).
Correspondence: static_analysis.parse_static_calldefs on generated module sources (nesting of def / async def /
class / decorators incl. property, x.setter, x.deleter / if / main guard and decoys / try / with / for / while /
match, depth <= 4) vs the extracted visitor model fed with the real ast converted to the model's tree;
package_modpaths on generated directory trees vs the extracted walk.
Search (model independent): a python transcription of the Visible relation on the real ast vs the real collection
(omission / intrusion / wrong name / duplicated identifier); examples per docstring and style by construction
(google: one per Example/Doctest block in order; freeform: one per docstring with prompts; auto); unique
identifiers; `list` output of the command line; files outside the package never collected.
"""
import ast
import contextlib
import io
import json
import os
import shutil
import sys
import tempfile
import warnings

from harness import common
from harness.common import Sym


# ---------------------------------------------------------------------------
# module source generator
# ---------------------------------------------------------------------------
# every spelling the google splitter accepts for an example block: alias, one or two colons, blanks around the colon(s)
GOOGLE_LABELS = ['Example:', 'Example:', 'Doctest:', 'Examples:', 'Example::', 'Examples::', 'Example :', 'Examples :', 'Doctest :',
                 'Doctest::', 'Example ::', 'Example: ', 'Doctest  :  ']


def gen_doc(rng, uid, indent):
    """(docstring text or None, number of google example blocks, has freeform prompts)"""
    r = rng.random()
    pad = ' ' * indent
    if r < 0.2:
        return None, 0, False
    if r < 0.3:
        return pad + 'Only prose, no examples. (%d)' % uid, 0, False
    if r < 0.38:
        # a block that freeform collection skips (header ending in Ignore: / DisableDoctest: ...) in front of the real example,
        # or behind it: still exactly one freeform doctest
        hdr = rng.choice(['Ignore:', 'DisableDoctest:', 'SkipDoctest:', 'DisableExample:'])
        skipped = [pad + hdr, pad + '    >>> print("not collected %d")' % uid, pad + '    never compared', '']
        real = [pad + 'Freeform %d.' % uid, '', pad + '>>> print(%d)' % uid, pad + '%d' % uid, '']
        parts = (skipped + [pad + 'Prose in between.', ''] + real) if rng.random() < 0.6 else (real + skipped)
        return '\n'.join(parts), 0, True
    if r < 0.44:
        # a google block that holds no prompt at all (a shell command, prose) and prompts elsewhere in the docstring: one google
        # doctest (the block), one freeform doctest (the prompts), and under auto the google answer - never both
        block = rng.choice([['$ python -m tool run %d' % uid], ['see the tutorial, section %d' % uid, 'and the notes there'], ['python -c "import this"  # %d' % uid]])
        lines = [pad + 'Mixed %d.' % uid, '', pad + rng.choice(GOOGLE_LABELS[:4])] + [pad + '    ' + b for b in block] + ['']
        tail = [pad + 'In code this reads', '', pad + '>>> print(%d)' % uid, pad + '%d' % uid, '']
        return '\n'.join((lines + tail) if rng.random() < 0.7 else ([pad + 'Mixed %d.' % uid, ''] + tail + lines[2:])), 1, True
    if r < 0.6:
        return '\n'.join([pad + 'Freeform %d.' % uid, '', pad + '>>> print(%d)' % uid, pad + '%d' % uid]), 0, True
    nblocks = rng.randint(4, 14) if rng.random() < 0.05 else rng.randint(1, 3)
    lines = [pad + 'Google %d.' % uid, '']
    for b in range(nblocks):
        lines += [pad + rng.choice(GOOGLE_LABELS), pad + '    >>> print(%d, %d)' % (uid, b), pad + '    %d %d' % (uid, b), '']
    if rng.random() < 0.3:
        lines += [pad + 'Args:', pad + '    x (int): something', '']
    return '\n'.join(lines), nblocks, True


class Gen:
    def __init__(self, rng):
        self.rng = rng
        self.uid = 0
        self.expected = []      # (callname, docstring-or-None, n google blocks, has prompts) by construction, in order

    def body(self, indent, depth, cls, visible):
        """statements of a block; visible: are definitions here collected? cls: class name if directly in a module-level class"""
        rng = self.rng
        out = []
        for _ in range(rng.randint(1, 3 if depth else 4)):
            out += self.stmt(indent, depth, cls, visible)
        return out or [' ' * indent + 'pass']

    def stmt(self, indent, depth, cls, visible):
        rng = self.rng
        pad = ' ' * indent
        self.uid += 1
        uid = self.uid
        r = rng.random()
        if depth >= 4 or r < 0.12:
            return [pad + 'x%d = %d' % (uid, uid)]
        if r < 0.5:
            # function
            name = ('f\xfc%d' if uid % 7 == 3 else 'f%d') % uid       # non-ASCII identifiers are identifiers
            if visible and rng.random() < 0.12:
                # a redefinition: the name of an earlier function of the same scope is bound again (the later
                # definition is the one that exists after import; static collection must report that one, once)
                prefix = (cls + '.') if cls else ''
                cands = [e[0][len(prefix):] for e in self.expected if e[0].startswith(prefix + 'f') and '.' not in e[0][len(prefix):]]
                if cands:
                    name = rng.choice(cands)
            is_async = rng.random() < 0.2
            deco = rng.choice([None, None, None, '@staticmethod', '@classmethod', '@property', '@deco', '@deco_call(1)', '@prev.setter', '@prev.deleter', '@Box.prev.setter', '@Box.prev.deleter']) if cls else \
                rng.choice([None, None, None, '@deco', '@deco_call(1)', '@mod.attr', '@prev.setter'])
            lines = []
            if deco:
                lines.append(pad + deco)
            lines.append(pad + ('async def ' if is_async else 'def ') + name + '(*args):')
            doc, nb, prompts = gen_doc(rng, uid, indent + 4)
            if doc is not None:
                if rng.random() < 0.2 and doc.split('\n')[0].strip():
                    # the docstring starts right behind the opening quotes (a tag or a prompt may stand there)
                    lines += [pad + '    r"""' + doc.lstrip(' '), pad + '    """']
                else:
                    lines += [pad + '    r"""', doc, pad + '    """']
            hidden = deco in ('@prev.setter', '@prev.deleter', '@Box.prev.setter', '@Box.prev.deleter')     # also the dotted spelling (a subclass extending an inherited property)
            if visible and not hidden:
                self.expected.append(((cls + '.' if cls else '') + name, doc, nb, prompts))
            # nested definitions are never collected
            if rng.random() < 0.4:
                lines += self.body(indent + 4, depth + 1, None, False)
            else:
                lines.append(pad + '    pass')
            return lines
        if r < 0.65:
            name = ('K\xe9%d' if uid % 5 == 2 else 'K%d') % uid
            lines = [pad + 'class %s(object):' % name]
            doc, nb, prompts = gen_doc(rng, uid, indent + 4)
            if doc is not None:
                lines += [pad + '    r"""', doc, pad + '    """']
            vis = visible and cls is None
            if vis:
                self.expected.append((name, doc, nb, prompts))
            lines += self.body(indent + 4, depth + 1, name if vis else 'Nested', vis)
            return lines
        if r < 0.75:
            test = rng.choice(["__name__ == '__main__'", "'__main__' == __name__", "__name__ != '__main__'", 'True', 'x', "__name__ == 'other'"])
            lines = [pad + 'if %s:' % test]
            inner_visible = visible and test != "__name__ == '__main__'"
            lines += self.body(indent + 4, depth + 1, cls, inner_visible)
            if rng.random() < 0.4:
                lines.append(pad + 'else:')
                lines += self.body(indent + 4, depth + 1, cls, visible)
            return lines
        kind = rng.choice(['try', 'with', 'for', 'while', 'match'])
        if kind == 'try':
            return [pad + 'try:'] + self.body(indent + 4, depth + 1, cls, visible) + [pad + 'except Exception:'] + self.body(indent + 4, depth + 1, cls, visible)
        if kind == 'with':
            return [pad + 'with ctx():'] + self.body(indent + 4, depth + 1, cls, visible)
        if kind == 'for':
            return [pad + 'for i in ():'] + self.body(indent + 4, depth + 1, cls, visible)
        if kind == 'while':
            return [pad + 'while False:'] + self.body(indent + 4, depth + 1, cls, visible)
        return [pad + 'match 1:', pad + '    case 1:'] + self.body(indent + 8, depth + 1, cls, visible)


def gen_module(rng):
    g = Gen(rng)
    lines = []
    moddoc = None
    if rng.random() < 0.5:
        moddoc, nb, prompts = gen_doc(rng, 0, 0)
        if moddoc is not None:
            lines += ['r"""', moddoc, '"""']
            g.expected.append(('__doc__', moddoc, nb, prompts))
    lines += ['prev = property(lambda s: 0)', 'def deco(f): return f', 'def deco_call(a): return deco', 'class Box(object):', '    prev = prev', '']
    g.expected += [('deco', None, 0, False), ('deco_call', None, 0, False), ('Box', None, 0, False)]
    lines += g.body(0, 0, None, True)
    return '\n'.join(lines) + '\n', g.expected


# ---------------------------------------------------------------------------
# the real ast as the model's tree; the Visible relation transcribed
# ---------------------------------------------------------------------------
def is_main_if(node):
    try:
        return (isinstance(node.test, ast.Compare) and isinstance(node.test.ops[0], ast.Eq) and
                node.test.left.id == '__name__' and node.test.comparators[0].value == '__main__')
    except Exception:
        return False


def to_tree(node, docs):
    def doc_of(n):
        d = ast.get_docstring(n, clean=False)
        if d is None:
            return None
        docs.append(d)
        return common.some(len(docs) - 1)
    if isinstance(node, (ast.FunctionDef, ast.AsyncFunctionDef)):
        hidden = any(isinstance(d, ast.Attribute) and d.attr in ('setter', 'deleter') for d in node.decorator_list)
        return [Sym('func'), node.name, hidden, doc_of(node), []]
    if isinstance(node, ast.ClassDef):
        return [Sym('class'), node.name, False, doc_of(node), [to_tree(c, docs) for c in ast.iter_child_nodes(node)]]
    if isinstance(node, ast.If) and is_main_if(node):
        return [Sym('ifmain'), '', False, None, [to_tree(c, docs) for c in node.orelse]]
    return [Sym('other'), '', False, None, [to_tree(c, docs) for c in ast.iter_child_nodes(node)]]


def visible(node, cls, out):
    """python transcription of Visible (Proofs/StaticProofs.v): (callname, docstring) pairs in visiting order"""
    if isinstance(node, (ast.FunctionDef, ast.AsyncFunctionDef)):
        if not any(isinstance(d, ast.Attribute) and d.attr in ('setter', 'deleter') for d in node.decorator_list):
            out.append(((cls + '.' if cls else '') + node.name, ast.get_docstring(node, clean=False)))
        return
    if isinstance(node, ast.ClassDef):
        if cls is None:
            out.append((node.name, ast.get_docstring(node, clean=False)))
            for c in ast.iter_child_nodes(node):
                visible(c, node.name, out)
        return
    if isinstance(node, ast.If) and is_main_if(node):
        for c in node.orelse:            # the else branch of the main guard runs on import
            visible(c, cls, out)
        return
    for c in ast.iter_child_nodes(node):
        visible(c, cls, out)


def _worker(job):
    tmp, idx, seed = job
    import random
    from xdoctest import static_analysis, core
    rng = random.Random(seed)
    src, expected = gen_module(rng)
    if rng.random() < 0.15:
        # the module is indented with TAB characters (one per level), docstrings included: still the same definitions and blocks
        src = '\n'.join('\t' * ((len(l) - len(l.lstrip(' '))) // 4) + ' ' * ((len(l) - len(l.lstrip(' '))) % 4) + l.lstrip(' ') for l in src.split('\n'))
    try:
        tree = ast.parse(src)
    except SyntaxError as e:
        return dict(src=src, harness_error='generated module does not parse: %s' % e)
    path = os.path.join(tmp, 'xdverif_c07_m%d.py' % idx)
    # how the file is saved: plain UTF-8, with a byte-order mark (legal: editors on Windows write it), with CRLF line ends
    saved = rng.choice(['plain', 'plain', 'plain', 'bom', 'crlf', 'bom+crlf'])
    with open(path, 'w', encoding='utf-8-sig' if 'bom' in saved else 'utf-8', newline='\r\n' if 'crlf' in saved else None) as f:
        f.write(src)
    try:
        with warnings.catch_warnings():
            warnings.simplefilter('ignore')
            calldefs = static_analysis.parse_static_calldefs(fpath=path)
    except Exception as e:
        return dict(src=src, collect_error='static collection of a module saved as %s raised %s: %s' % (saved, type(e).__name__, str(e)[:200]))
    impl = [(k, v.docstr) for k, v in calldefs.items()]
    # model request
    docs = []
    md = ast.get_docstring(tree, clean=False)
    moddoc = None
    if md:
        docs.append(md)
        moddoc = common.some(0)
    body = [to_tree(c, docs) for c in tree.body]
    if md:
        body = body      # the docstring expression itself is an ordinary node
    req = ('visit_module', moddoc, body)
    # spec on the real ast
    vis = []
    if md:
        vis.append(('__doc__', md))
    for c in tree.body:
        visible(c, None, vis)
    problems = []
    spec = {}
    order = []
    for k, d in vis:
        if k not in spec:
            order.append(k)
        spec[k] = d
    if [k for k, _ in impl] != order:
        extra = [k for k, _ in impl if k not in spec]
        missing = [k for k in order if k not in dict(impl)]
        problems.append('collected names %r; visible definitions %r (intruders %r, omitted %r)' % ([k for k, _ in impl][:12], order[:12], extra, missing))
    elif dict(impl) != spec:
        problems.append('docstring of %r differs from the definition\'s' % [k for k in order if dict(impl)[k] != spec[k]][:3])
    # by construction (independent of ast): names the generator made visible
    exp_names = []
    for name, doc, nb, pr in expected:
        if name not in exp_names:
            exp_names.append(name)
    if sorted(exp_names) != sorted(order):
        problems.append('generator expectation %r differs from the Visible transcription %r (harness)' % (sorted(exp_names)[:10], sorted(order)[:10]))
    # examples per style
    exp_last = {}
    for name, doc, nb, pr in expected:
        exp_last[name] = (doc, nb, pr)
    for style in ('google', 'freeform', 'auto'):
        with warnings.catch_warnings():
            warnings.simplefilter('ignore')
            so = sys.stdout
            sys.stdout = open(os.devnull, 'w')
            try:
                exs = list(core.parse_doctestables(path, style=style, analysis='static'))
            finally:
                sys.stdout.close()
                sys.stdout = so
        ids = [e.unique_callname for e in exs]
        if len(set(ids)) != len(ids):
            problems.append('style %s: identifiers are not unique: %r' % (style, [i for i in ids if ids.count(i) > 1][:4]))
        want = []
        for name in order:
            doc, nb, pr = exp_last.get(name, (None, 0, False))
            if doc is None:
                continue
            if style == 'google':
                n = nb
            elif style == 'freeform':
                n = 1 if pr else 0
            else:
                n = nb if nb else (1 if pr else 0)
            want += ['%s:%d' % (name, i) for i in range(n)]
        if ids != want:
            problems.append('style %s: doctests %r, by construction %r' % (style, ids[:10], want[:10]))
    sys.modules.pop('xdverif_c07_m%d' % idx, None)
    return dict(src=src, impl=impl, docs=docs, req=req, problems=problems)


# ---------------------------------------------------------------------------
# package trees
# ---------------------------------------------------------------------------
def gen_tree(rng, depth=0):
    """model tree of a directory's children + the entries to create"""
    ch = []
    names = ['__init__.py', 'a.py', 'b.py', 'notes.txt', 'c.pyc', '__main__.py', 'data.py.bak']
    for n in names:
        if rng.random() < (0.55 if n == '__init__.py' else 0.35):
            ch.append([Sym('file'), n])
    if depth < 3:
        for d in ('sub', 'pkg', 'x_y'):
            if rng.random() < 0.4:
                ch.append([Sym('dir'), d, gen_tree(rng, depth + 1)])
    return ch


def make(root, ch):
    os.makedirs(root, exist_ok=True)
    for c in ch:
        if c[0] == Sym('file'):
            open(os.path.join(root, c[1]), 'w').write('')
        else:
            make(os.path.join(root, c[1]), c[2])


def spec_walk(root, ch, rel=()):
    """every directory from the package directory down must hold __init__.py"""
    out = []
    names = [c[1] for c in ch if c[0] == Sym('file')]
    if '__init__.py' not in names:
        return out
    for n in names:
        if n.endswith('.py'):
            out.append(rel + (n,))
    for c in ch:
        if c[0] == Sym('dir'):
            out += spec_walk(root, c[2], rel + (c[1],))
    return out


def package_cases(ctx, tmp):
    from xdoctest import static_analysis
    rng = ctx.rng('trees')
    reqs, impls, specs, trees = [], [], [], []
    for i in range(300 if ctx.tier == 'quick' else 5000):
        ch = gen_tree(rng)
        root = os.path.join(tmp, 'pk%d' % i, 'top')
        make(root, ch)
        # something outside the package that must never be collected
        open(os.path.join(tmp, 'pk%d' % i, 'outside.py'), 'w').write('')
        got = sorted(tuple(os.path.relpath(p, root).split(os.sep)) for p in static_analysis.package_modpaths(root, with_pkg=True, with_libs=True))
        impls.append(got)
        specs.append(sorted(spec_walk(root, ch)))
        reqs.append(('package_modpaths', [], [Sym('dir'), 'top', ch]))
        trees.append(ch)
    ans = common.model_batch(reqs)
    nv = 0
    for ch, got, spec, a in zip(trees, impls, specs, ans):
        ctx.evaluations += 1
        if spec:
            ctx.nontrivial += 1
        model = sorted(tuple(p) for p in a)
        problem = None
        if got != spec:
            problem = 'package_modpaths collects %r; the files of the package tree are %r' % (got[:12], spec[:12])
        if got != model:
            ctx.corr_failures.append(ch)
            if nv < 3:
                nv += 1
                ctx.violation('walk-correspondence', {'what': 'package_modpaths %r, model %r' % (got[:12], model[:12]), 'tree': common.sx_enc(ch),
                              'theorem_or_correspondence': 'correspondence package_modpaths/walk (feeds C07_package_walk)'}, bool(problem))
        elif problem and nv < 3:
            nv += 1
            ctx.violation('package-walk', {'what': problem, 'tree': common.sx_enc(ch), 'theorem_or_correspondence': 'C07_package_walk'}, True)


def run(ctx):
    tmp = tempfile.mkdtemp(prefix='xdverif_c07_')
    try:
        n = 1200 if ctx.tier == 'quick' else 25000
        jobs = [(tmp, i, ctx.seed * 7919 + i) for i in range(n)]
        results = common.pmap(_worker, jobs, chunksize=25)
        ok = [r for r in results if 'req' in r]
        ans = []
        for i in range(0, len(ok), 400):
            ans += common.model_batch([r['req'] for r in ok[i:i + 400]])
        nv = {'c': 0, 'p': 0}
        for r, a in zip(ok, ans):
            ctx.evaluations += 1
            if len(r['impl']) > 3:
                ctx.nontrivial += 1
            model = [(k, (r['docs'][v[1]] if isinstance(v, list) else None)) for k, v in a]
            if model != r['impl']:
                ctx.corr_failures.append(r['src'])
                if nv['c'] < 4:
                    nv['c'] += 1
                    ctx.violation('visitor-correspondence', {'what': 'parse_static_calldefs %r, visitor model %r' % (
                        [k for k, _ in r['impl']][:14], [k for k, _ in model][:14]), 'module_source': r['src'],
                        'theorem_or_correspondence': 'correspondence TopLevelVisitor/visit (feeds C07_collect_sound_complete)'}, bool(r['problems']))
            if r['problems'] and nv['p'] < 5:
                nv['p'] += 1
                ctx.violation('collection', {'what': '; '.join(r['problems'])[:1500], 'module_source': r['src'],
                              'theorem_or_correspondence': 'Visible transcription / by-construction examples on static collection'}, True)
        for r in [r for r in results if 'collect_error' in r][:4]:
            ctx.violation('collection', {'what': r['collect_error'], 'module_source': r['src'],
                          'theorem_or_correspondence': 'static collection of a legal module file'}, True)
        bad = [r for r in results if 'harness_error' in r]
        ctx.count('generated modules that do not parse (skipped)', len(bad))
        package_cases(ctx, tmp)
        package_collection(ctx, tmp)
    finally:
        shutil.rmtree(tmp, ignore_errors=True)
    ctx.add_rule('%d generated module sources (def / async def / class / decorators incl. property, staticmethod, classmethod, x.setter, x.deleter, call and attribute '
                 'decorators / if / main guard and 5 decoys / else / try / with / for / while / match; depth <= 4; docstrings none, prose, freeform, google with 1..3 blocks) '
                 'x styles {google, freeform, auto}; generated package trees of depth <= 4 with and without __init__.py, stray files; non-trivial = more than 3 collected names / non-empty package' % n)
    ctx.sample({'module_source': ok[0]['src'][:900], 'collected': [k for k, _ in ok[0]['impl']]})
    ctx.assumptions += ['the conversion of the real ast into the model\'s tree (children = ast.iter_child_nodes, main-guard test as visit_If makes it) is trusted glue',
                        'os.walk order is not compared (sets of paths)']


# ---------------------------------------------------------------------------
# collecting a whole package: every doctest of every parseable module exactly once under its own module, nothing for a
# file that is not valid Python for this interpreter (a Python 2 script, a template), wherever it stands in the walk
# ---------------------------------------------------------------------------
BROKEN_FILES = ["print 'a python 2 script'\n", "def f(:\n    pass\n", "{{ cookiecutter.template }}\n", "x = = 1\n", "def g():\nreturn 1\n"]


def collect_package(root, style, analysis='static'):
    from xdoctest import core
    got = {}
    with warnings.catch_warnings(), contextlib.redirect_stdout(io.StringIO()), contextlib.redirect_stderr(io.StringIO()):
        warnings.simplefilter('ignore')
        for ex in core.parse_doctestables(root, style=style, analysis=analysis):
            key = (os.path.relpath(ex.modpath, root), ex.callname, ex.num)
            got[key] = got.get(key, 0) + 1
    return got


def package_files(seed):
    import random
    rng = random.Random(seed)
    names = ['__init__', 'alpha', 'beta', 'legacy_script', 'mid_broken', 'omega', 'zz_template']
    files, expect = {}, {}
    for name in names:
        if name != '__init__' and rng.random() < 0.25:
            continue
        if name in ('legacy_script', 'mid_broken', 'zz_template') and rng.random() < 0.8:
            files[name + '.py'] = rng.choice(BROKEN_FILES)
            continue
        nfun = rng.randint(0, 2) if name != '__init__' else rng.randint(0, 1)
        src = []
        for j in range(nfun):
            src += ['def %s_f%d():' % (name.strip('_'), j), '    """', '    Example:', '        >>> print(%d)' % j, '        %d' % j, '    """', '']
            expect[(name + '.py', '%s_f%d' % (name.strip('_'), j), 0)] = 1
        files[name + '.py'] = '\n'.join(src) + '\n'
    if rng.random() < 0.5:
        # a module that cannot be imported where the collection runs (an optional dependency is missing) and one with a definition in a
        # branch that is not taken: plain .py files are analysed from their text, so both are collected all the same
        files['needs_dep.py'] = 'import xdverif_c07_missing_dependency\n\ndef needs_dep_f0():\n    """\n    Example:\n        >>> print(7)\n        7\n    """\n'
        expect[('needs_dep.py', 'needs_dep_f0', 0)] = 1
        files['branches.py'] = 'import sys\nif sys.platform == "no such platform":\n    def branches_f0():\n        """\n        Example:\n            >>> print(8)\n            8\n        """\n'
        expect[('branches.py', 'branches_f0', 0)] = 1
    return files, expect


def package_collection(ctx, tmp):
    n = 60 if ctx.tier == 'quick' else 600
    nb = 0
    for i in range(n):
        seed = ctx.seed * 7919 + i
        files, expect = package_files(seed)
        # (the package may live below a directory whose name holds a dot and the letters of a file extension: vendor.sources, my.solver, notes.ipynb.d)
        root = os.path.join(tmp, 'pkgc%d' % i, ['plain', 'vendor.sources', 'my.solver', 'notes.ipynb.d', '.software'][i % 5], 'xdverif_c07_pkg%d' % i)
        os.makedirs(root)
        for fn, src in files.items():
            open(os.path.join(root, fn), 'w').write(src)
        nb += sum(1 for src in files.values() if src in BROKEN_FILES)
        for style in ('auto', 'google', 'freeform'):
            ctx.evaluations += 1
            ctx.nontrivial += 1 if len(expect) > 1 else 0
            try:
                got = collect_package(root, style)
                if got == expect:
                    # the default analysis ('auto') reads .py files statically too, wherever they stand
                    got = collect_package(root, style, analysis='auto')
            except BaseException as e:      # noqa
                got = {('raised', type(e).__name__, str(e)[:100]): 1}
            if got != expect:
                extra = sorted(k for k in got if got[k] != expect.get(k, 0))
                missing = sorted(k for k in expect if k not in got)
                if len([v for v in ctx.violations if v['kind'] == 'package-collection']) < 4:
                    ctx.violation('package-collection', {
                        'what': 'collecting the package in %s style: collected a wrong number of times / not in the package %r; not collected %r' % (style, extra[:6], missing[:6]),
                        'files': files, 'style': style, 'pkg_seed': seed, 'pkg_parent': os.path.basename(os.path.dirname(root)), 'theorem_or_correspondence': 'C07: each doctest of the package exactly once, nothing else'}, True)
    ctx.count('package_collections', n * 3)
    ctx.count('package_files_that_do_not_parse', nb)


def replay_package(d, path):
    tmp = tempfile.mkdtemp(prefix='xdverif_c07r_')
    try:
        files, expect = package_files(d['pkg_seed'])
        if files != d['files']:
            files = d['files']
            print('(the generator has changed since this replay was written: only duplicates and broken files are judged)')
            expect = None
        root = os.path.join(tmp, d.get('pkg_parent', 'plain'), 'xdverif_c07_pkgr')
        os.makedirs(root)
        for fn, src in files.items():
            open(os.path.join(root, fn), 'w').write(src)
        try:
            got = collect_package(root, d['style'])
            if expect is not None and got == expect:
                got = collect_package(root, d['style'], analysis='auto')
        except BaseException as e:      # noqa
            got = {('raised', type(e).__name__, str(e)[:100]): 1}
        print('collected %r' % sorted(got.items()))
        bad = (got != expect) if expect is not None else any(v != 1 or files.get(k[0]) in BROKEN_FILES for k, v in got.items())
        if bad:
            print('expected %r' % (sorted(expect.items()) if expect is not None else 'each once, none from a broken file'))
            print('VIOLATION property=C07 replay=%s' % path)
            return 1
        print('each doctest of the package collected exactly once, nothing from files that do not parse')
        return 0
    finally:
        shutil.rmtree(tmp, ignore_errors=True)


def replay(path):
    d = json.load(open(path))
    if d.get('kind') == 'package-collection':
        return replay_package(d, path)
    if 'module_source' in d:
        tmp = tempfile.mkdtemp(prefix='xdverif_c07r_')
        try:
            from xdoctest import static_analysis
            p = os.path.join(tmp, 'xdverif_c07_replay.py')
            open(p, 'w').write(d['module_source'])
            calldefs = static_analysis.parse_static_calldefs(fpath=p)
            tree = ast.parse(d['module_source'])
            vis = []
            md = ast.get_docstring(tree, clean=False)
            if md:
                vis.append(('__doc__', md))
            for c in tree.body:
                visible(c, None, vis)
            order = []
            for k, _ in vis:
                if k not in order:
                    order.append(k)
            print('collected=%r\nvisible=%r' % (list(calldefs), order))
            if list(calldefs) != order or d['kind'] == 'collection':
                print('VIOLATION property=C07 replay=%s' % path)
                return 1
            return 0
        finally:
            shutil.rmtree(tmp, ignore_errors=True)
    print(json.dumps(d, indent=1)[:2000])
    print('VIOLATION property=C07 replay=%s' % path)
    return 1
