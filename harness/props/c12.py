"""C12 — Process-global state is restored after every outcome.

Theorems: Props/C12.v (stdout/stderr/warning filters/showwarning after a run equal those before, for any parts
doing anything to them; PythonPathContext restores sys.path exactly when the body leaves it alone and removes
exactly one occurrence of its entry otherwise).
Correspondence: (1) PythonPathContext on random paths x index x body manipulations of sys.path vs the extracted
ppc_enter/ppc_exit (final list, RuntimeError, IndexError); (2) DocTest.run on a matrix outcome kind x position x
on_error x body flavour: the stdout logged per part vs the model's capture bookkeeping.
Search (model independent): identity of sys.stdout/sys.stderr, copies of sys.path, warnings.filters,
warnings.showwarning and the absence of a running event loop, before/after DocTest.run and
utils.import_module_from_path (good / raising / missing / sys.path-rearranging modules).
"""
import asyncio
import contextlib
import io
import json
import os
import shutil
import sys
import tempfile
import warnings

from harness import common
from harness.common import Sym


# ---------------------------------------------------------------------------
# PythonPathContext unit level
# ---------------------------------------------------------------------------
BODIES = ['none', 'append', 'insert0', 'rotate', 'rotate_back', 'remove_d', 'dup_d_front', 'pop_last', 'clear_some', 'move_d_front', 'move_d_back']


def apply_body(lst, body, d):
    if body == 'append':
        lst.append('/zz/appended')
    elif body == 'insert0':
        lst.insert(0, '/zz/inserted')
    elif body == 'rotate':
        lst.append(lst.pop(0))
    elif body == 'rotate_back':
        lst.insert(0, lst.pop())
    elif body == 'remove_d':
        while d in lst:
            lst.remove(d)
    elif body == 'dup_d_front':
        lst.insert(0, d)
    elif body == 'pop_last':
        lst.pop()
    elif body == 'clear_some':
        del lst[1:]
    elif body == 'move_d_front':
        if d in lst:
            lst.remove(d)
            lst.insert(0, d)
    elif body == 'move_d_back':
        if d in lst:
            lst.remove(d)
            lst.append(d)


def ppc_cases(ctx):
    rng = ctx.rng('ppc')
    out = []
    for _ in range(3000 if ctx.tier == 'quick' else 60000):
        n = rng.randint(1, 6)
        path = ['/fake/p%d' % rng.randint(0, 4) for _ in range(n)]
        d = rng.choice(['/fake/tmpdir', '/fake/p0', '/fake/p1'])
        index = rng.choice([-1, -1, 0, 0, 1, 2, -2, n, -(n + 1)])
        out.append((path, d, index, rng.choice(BODIES)))
    return out


def run_ppc(case):
    from xdoctest.utils import util_import
    path, d, index, body = case
    real = list(sys.path)
    res = None
    try:
        sys.path[:] = list(path)
        with warnings.catch_warnings():
            warnings.simplefilter('ignore')
            ctxm = util_import.PythonPathContext(d, index=index)
            ctxm.__enter__()
            entered = list(sys.path)
            i = ctxm.index
            apply_body(sys.path, body, d)
            after_body = list(sys.path)
            try:
                ctxm.__exit__(None, None, None)
                res = ('ok', list(sys.path))
            except RuntimeError:
                res = ('runtimeerror', list(sys.path))
            except IndexError:
                res = ('indexerror', list(sys.path))
            except Exception as e:
                res = ('raised:' + type(e).__name__, list(sys.path))
    finally:
        sys.path[:] = real
    return entered, i, after_body, res


# ---------------------------------------------------------------------------
# DocTest.run matrix
# ---------------------------------------------------------------------------
# each part: (source lines, want lines, text the part's own code writes to the capture stream)
def part_flavours():
    F = {}
    F['prints'] = ([">>> print('hello')"], [], 'hello\n')
    F['replaces_stdout'] = ([">>> import sys, io", ">>> print('before'); sys.stdout = io.StringIO(); print('lost')"], [], 'before\n')
    F['replaces_and_restores'] = ([">>> import sys, io", ">>> _o = sys.stdout; sys.stdout = io.StringIO(); print('lost'); sys.stdout = _o; print('back')"], [], 'back\n')
    F['alters_filters'] = ([">>> import warnings", ">>> warnings.simplefilter('error'); warnings.filterwarnings('ignore', 'xyz'); print('f')"], [], 'f\n')
    F['alters_showwarning'] = ([">>> import warnings", ">>> warnings.showwarning = lambda *a, **k: None", ">>> print('s')"], [], 's\n')
    F['awaits'] = ([">>> import asyncio", ">>> await asyncio.sleep(0)", ">>> print('aw')"], [], 'aw\n')
    # the body closes the stream it finds in sys.stdout (the capture stream): the run ends with the ValueError of the next write
    F['closes_stdout'] = ([">>> import sys", ">>> sys.stdout.close()"], [], None)
    F['with_stdout'] = ([">>> import sys", ">>> with sys.stdout:", "...     sys.stdout.write('')"], [], None)
    F['writes_stderr'] = ([">>> import sys", ">>> sys.stderr.write('')", ">>> print('e')"], [], '0\ne\n' if False else None)
    return F


ENDINGS = {
    'pass': ([">>> print('end')"], ['end']),
    'mismatch': ([">>> print('end')"], ['nope']),
    'exception': ([">>> raise ValueError('v')"], []),
    'expected_exception': ([">>> raise ValueError('v')"], ['Traceback (most recent call last):', 'ValueError: v']),
    'exit_test': ([">>> import xdoctest", ">>> raise xdoctest.ExitTestException()"], []),
    'pytest_skip': ([">>> import pytest", ">>> pytest.skip()"], []),
    'all_skipped_tail': ([">>> print('never')  # xdoctest: +SKIP"], []),
    'system_exit': ([">>> raise SystemExit(3)"], []),
    'keyboard_interrupt': ([">>> raise KeyboardInterrupt()"], []),
    'compile_error': ([">>> return 1"], []),
}


def snapshot():
    try:
        asyncio.get_running_loop()
        loop = True
    except RuntimeError:
        loop = False
    return dict(stdout=sys.stdout, stderr=sys.stderr, path=list(sys.path), filters=list(warnings.filters),
                showwarning=warnings.showwarning, loop=loop)


def compare(before, after):
    problems = []
    if after['stdout'] is not before['stdout']:
        problems.append('sys.stdout is not the original object (%r)' % type(after['stdout']).__name__)
    if after['stderr'] is not before['stderr']:
        problems.append('sys.stderr is not the original object')
    if after['path'] != before['path']:
        problems.append('sys.path changed: added %r removed %r' % ([p for p in after['path'] if p not in before['path']],
                                                                   [p for p in before['path'] if p not in after['path']]))
    if after['filters'] != before['filters']:
        problems.append('warnings.filters changed (%d -> %d entries)' % (len(before['filters']), len(after['filters'])))
    if after['showwarning'] is not before['showwarning']:
        problems.append('warnings.showwarning is not the original function')
    if after['loop']:
        problems.append('an event loop is left running')
    return problems


def run_matrix_case(case):
    from xdoctest import doctest_example
    flav, ending, pos, on_error = case
    F = part_flavours()
    src, want, written = F[flav]
    esrc, ewant = ENDINGS[ending]
    lines = []
    if pos == 'last':
        lines += src + want + esrc + ewant
    else:
        lines += esrc + ewant + src + want
    doc = '\n'.join(lines)
    ex = doctest_example.DocTest(docsrc=doc, lineno=1)
    before = snapshot()
    outcome = None
    try:
        s = ex.run(on_error=on_error, verbose=0)
        outcome = 'summary:%s' % ('passed' if s['passed'] else 'failed' if s['failed'] else 'skipped')
        after = snapshot()
    except BaseException as e:      # noqa
        outcome = 'raised:' + type(e).__name__
        after = snapshot()          # while the exception (and every frame it references) is still alive
    problems = compare(before, after)
    # put things back so that one failing case does not poison the next
    sys.stdout, sys.stderr = before['stdout'], before['stderr']
    sys.path[:] = before['path']
    warnings.filters[:] = before['filters']
    warnings.showwarning = before['showwarning']
    logged = [ex.logged_stdout[k] for k in sorted(ex.logged_stdout)]
    return doc, outcome, problems, logged


IMPORT_MODULES = {
    'good': 'X = 1\n',
    'raises': 'raise RuntimeError("import boom")\n',
    'rotates_path': 'import sys\nsys.path.append(sys.path.pop(0))\n',
    'rotates_back': 'import sys\nsys.path.insert(0, sys.path.pop())\nsys.path.insert(0, sys.path.pop())\n',
    'appends_then_raises': 'import sys\nsys.path.append("/zz/late")\nsys.path.remove("/zz/late")\nraise ValueError("late")\n',
    # a script without a main guard: importing it ends with SystemExit / KeyboardInterrupt (not an Exception)
    'exits': 'import sys\nsys.exit(3)\n',
    'interrupts': 'raise KeyboardInterrupt()\n',
    'prepends_entry': 'import sys\nsys.path.insert(0, "/zz/mine")\nsys.path.remove("/zz/mine")\n',
    'replaces_stdout': 'import sys, io\n_o = sys.stdout\nsys.stdout = io.StringIO()\nsys.stdout = _o\n',
    # wraps the stream for good at import time (what colour / logging helpers do): after a DOCTEST RUN that imported the
    # module, sys.stdout is again what it was before that run
    'wraps_stdout': 'import sys\nclass _W(object):\n    def __init__(self, inner):\n        self.inner = inner\n    def write(self, t):\n        return self.inner.write(t)\n'
                    '    def flush(self):\n        return self.inner.flush()\nsys.stdout = _W(sys.stdout)\n',
}
GLOBAL_EXEC_WRAP = 'import sys\nclass _G(object):\n    def __init__(self, inner):\n        self.inner = inner\n    def write(self, t):\n        return self.inner.write(t)\n    def flush(self):\n        return self.inner.flush()\nsys.stdout = _G(sys.stdout)'


def ambient_streams(ctx):
    """the stream found in sys.stdout when the run starts need not be a well-behaved file: a write-only sink, a stream whose
    flush() fails (a pipe whose reader is gone), a stream without isatty/encoding: after every outcome, at every verbosity,
    sys.stdout is that very object again"""
    from xdoctest import doctest_example
    import io

    class Sink(object):
        def __init__(self):
            self.buf = []

        def write(self, t):
            self.buf.append(t)
            return len(t)

    class BadFlush(io.StringIO):
        def flush(self):
            raise BrokenPipeError('the reader is gone')

    class NoFlushAttr(object):
        def write(self, t):
            return len(t)

        def __getattr__(self, name):
            raise AttributeError(name)
    class Transcript(io.StringIO):
        # a stream that knows its size: an EMPTY one is falsy (bool() asks __len__), yet it is the process's stdout like any other
        def __len__(self):
            return len(self.getvalue())

    class AsciiConsole(io.StringIO):
        # a console that cannot show every character (LANG=C, a legacy code page): writing such text to it raises
        def write(self, t):
            t.encode('ascii')
            return io.StringIO.write(self, t)

    docs = [">>> print('x')\nx", ">>> print('x')\ny", ">>> raise ValueError('v')", ">>> raise ValueError('v')\nTraceback (most recent call last):\nValueError: v",
            ">>> import xdoctest\n>>> raise xdoctest.ExitTestException()", ">>> raise SystemExit(3)", ">>> print('never')  # xdoctest: +SKIP",
            ">>> print(chr(0x2713) + ' done')\n>>> print('next')\nnext", ">>> print('a')\n>>> print('caf' + chr(233))\nsomething else"]
    for mk in (Sink, BadFlush, NoFlushAttr, Transcript, AsciiConsole):
        for verbose in (0, 1, 2, 3):
            for oe in ('return', 'raise'):
                for doc in docs:
                    ctx.evaluations += 1
                    amb = mk()
                    ex = doctest_example.DocTest(docsrc=doc, lineno=1)
                    real, real_err = sys.stdout, sys.stderr
                    sys.stdout = amb
                    try:
                        try:
                            with warnings.catch_warnings():
                                warnings.simplefilter('ignore')
                                ex.run(on_error=oe, verbose=verbose)
                            how = 'returned'
                        except BaseException as e:      # noqa
                            how = 'raised %s' % type(e).__name__
                        same = sys.stdout is amb
                    finally:
                        sys.stdout, sys.stderr = real, real_err
                    if mk is AsciiConsole and oe == 'return' and how not in ('returned', 'raised Skipped') and 'SystemExit' not in doc:
                        ctx.violation('not-restored', {'what': 'with a console that cannot encode every character as sys.stdout, DocTest.run(on_error=%r, verbose=%d) %s instead of returning a summary' % (
                            oe, verbose, how), 'doctest': doc, 'ambient': mk.__name__, 'verbose': verbose, 'on_error': oe,
                            'theorem_or_correspondence': 'C09_return_never_raises / C12 on DocTest.run (ambient stream that rejects text)'}, True)
                        return
                    if not same:
                        ctx.violation('not-restored', {'what': 'with a %s object as sys.stdout, after DocTest.run(on_error=%r, verbose=%d) that %s, sys.stdout is not that object any more' % (
                            mk.__name__, oe, verbose, how), 'doctest': doc, 'ambient': mk.__name__, 'verbose': verbose, 'on_error': oe,
                            'theorem_or_correspondence': 'C12_stdout_restored on DocTest.run (ambient stream)'}, True)
                        return
    ctx.count('ambient_stream_runs', 5 * 4 * 2 * len(docs))


def after_collection(ctx):
    """restored means restored for good: when the objects of a finished run (the DocTest, its summary, the exception it raised and the
    frames that hangs on) are dropped and the garbage collector runs LATER - the host has meanwhile put another stream into
    sys.stdout - nothing of the old run reaches into sys.stdout any more"""
    from xdoctest import doctest_example
    import gc
    import io
    docs = [">>> print('x')\nx", ">>> print('x')\ny", ">>> raise ValueError('v')", ">>> def f():\n...     raise KeyError('k')\n>>> f()",
            ">>> raise ValueError('v')\nTraceback (most recent call last):\nValueError: w", ">>> print('never')  # xdoctest: +SKIP"]
    n = 0
    for doc in docs:
        for oe in ('return', 'raise'):
            for keep in ('nothing', 'summary-until-switch'):
                ctx.evaluations += 1
                n += 1
                real, real_err = sys.stdout, sys.stderr
                a, b = io.StringIO(), io.StringIO()
                problem = None
                try:
                    sys.stdout = a
                    kept = None
                    ex = doctest_example.DocTest(docsrc=doc, lineno=1)
                    try:
                        with warnings.catch_warnings():
                            warnings.simplefilter('ignore')
                            kept = ex.run(on_error=oe, verbose=0)
                    except BaseException as e:      # noqa
                        kept = e
                    if sys.stdout is not a:
                        problem = 'directly after the run sys.stdout is not the stream it found'
                    if keep == 'nothing':
                        kept = None
                    ex = None
                    sys.stdout = b                      # the host goes on with another stream; the first one stays open
                    kept = None
                    e = None
                    for _ in range(3):
                        gc.collect()
                    if problem is None and sys.stdout is not b:
                        problem = 'after the objects of the finished run were garbage-collected, sys.stdout is %s, not the stream the host installed after the run' % (
                            'the stream the run had found' if sys.stdout is a else repr(sys.stdout))
                finally:
                    sys.stdout, sys.stderr = real, real_err
                if problem:
                    ctx.violation('not-restored', {'what': problem + ' (on_error=%r, result kept: %s)' % (oe, keep), 'doctest': doc, 'on_error': oe, 'scenario': 'later-collection',
                                                   'theorem_or_correspondence': 'C12_stdout_restored on DocTest.run (objects of a finished run collected later)'}, True)
                    return
    ctx.count('later_collection_runs', n)


def syspath_entries(ctx):
    """sys.path as an interactive session or `python -c` has it - with the entry '' (the current directory) in front: looking a module
    up, which every `+REQUIRES(module:NAME)` directive and every collection by name does, reads the list and leaves it alone"""
    from xdoctest import doctest_example
    from xdoctest.utils import util_import
    path0 = list(sys.path)
    n = 0
    try:
        for where in ('front', 'middle', 'twice'):
            base = [p for p in path0 if p != '']
            sys.path[:] = ([''] + base) if where == 'front' else (base[:2] + [''] + base[2:]) if where == 'middle' else ([''] + base + [''])
            for k, name in enumerate(('colorsys', 'xdverif_c12_no_such_module_%s' % where, 'json.decoder', 'sndhdr_%s_missing.sub' % where, 'wave')):
                for how in ('directive', 'lookup'):
                    ctx.evaluations += 1
                    n += 1
                    before = list(sys.path)
                    so = sys.stdout
                    try:
                        if how == 'directive':
                            ex = doctest_example.DocTest(docsrc=">>> # xdoctest: +REQUIRES(module:%s)\n>>> print('x')\nx\n" % name, lineno=1)
                            ex.mode = 'native'
                            with warnings.catch_warnings():
                                warnings.simplefilter('ignore')
                                ex.run(on_error='return', verbose=0)
                        else:
                            util_import.modname_to_modpath(name + ('' if k % 2 else '_again'))
                    except BaseException as e:      # noqa
                        pass
                    finally:
                        sys.stdout = so
                    after = list(sys.path)
                    if after != before:
                        ctx.violation('not-restored', {'what': "sys.path holds the entry '' (%s); after %s of module %r it reads %r instead of %r" % (
                            where, 'a doctest with +REQUIRES(module:...)' if how == 'directive' else 'modname_to_modpath()', name,
                            [p for p in after if p in ('', '.')], [p for p in before if p in ('', '.')]), 'module_name': name, 'how': how, 'where': where,
                            'scenario': 'syspath-empty-entry', 'theorem_or_correspondence': 'C12: sys.path after a run / a lookup'}, True)
                        return
    finally:
        sys.path[:] = path0
    ctx.count('syspath_empty_entry_cases', n)


def capture_protocol(ctx):
    """utils.CaptureStdout, the object DocTest.run wraps around every part, driven directly: random sequences of parts over ONE
    capture object (as run does), each part a list of actions (write text incl. carriage returns / non-ASCII, swap sys.stdout and maybe
    swap back, nest another capture, raise an exception - truthy, falsy, BaseException).  Against a reference written from the
    contract: what was written while the capture stream was sys.stdout is the part's text (exactly, once), the ambient stream gets it
    iff not suppressed, sys.stdout is the ambient stream again after every part, and an exception always propagates"""
    from xdoctest import utils
    import io
    rng = ctx.rng('capture')

    class Falsy(Exception):
        def __bool__(self):
            return False

    TEXTS = ['a\n', 'x', '', 'two\nlines\n', 'cr\rover\r\n', 'caf\xe9 \u2028 \x0c\n', 'tab\t\n', ' ', '\n\n']
    EXCS = [None, None, None, ValueError('v'), Falsy('f'), KeyboardInterrupt(), SystemExit(2), GeneratorExit()]
    nscen = 400 if ctx.tier == 'quick' else 8000
    for sc in range(nscen):
        suppress = rng.random() < 0.5
        ambient = io.StringIO()
        real = sys.stdout
        sys.stdout = ambient
        problem = None
        script = []
        try:
            cap = utils.CaptureStdout(suppress=suppress)
            ref_amb = ''
            for part in range(rng.randint(1, 4)):
                actions = [rng.choice(['write', 'write', 'write', 'swap', 'swap_back', 'nest']) for _ in range(rng.randint(0, 4))]
                exc = rng.choice(EXCS)
                script.append((actions, type(exc).__name__ if exc is not None else None))
                ref_text = ''
                raised = None
                try:
                    with cap:
                        swapped = None
                        for a in actions:
                            if a == 'write':
                                t = rng.choice(TEXTS)
                                sys.stdout.write(t)
                                if swapped is None:
                                    ref_text += t
                                    if not suppress:
                                        ref_amb += t
                            elif a == 'swap' and swapped is None:
                                swapped = sys.stdout
                                sys.stdout = io.StringIO()
                            elif a == 'swap_back' and swapped is not None:
                                sys.stdout = swapped
                                swapped = None
                            elif a == 'nest' and swapped is None:
                                inner = utils.CaptureStdout(suppress=True)
                                with inner:
                                    sys.stdout.write('inner')
                                if inner.text != 'inner':
                                    problem = 'nested capture recorded %r' % (inner.text,)
                        if exc is not None:
                            raise exc
                except BaseException as e:      # noqa
                    raised = e
                if exc is not None and raised is not exc:
                    problem = 'the exception %r raised inside the captured part did not propagate (got %r)' % (exc, raised)
                elif exc is None and raised is not None:
                    problem = 'an exception appeared from nowhere: %r' % (raised,)
                elif sys.stdout is not ambient:
                    problem = 'after part %d sys.stdout is not the ambient stream' % part
                elif cap.text != ref_text:
                    problem = 'part %d: recorded text %r, written while captured %r' % (part, cap.text, ref_text)
                elif ambient.getvalue() != ref_amb:
                    problem = 'part %d: the ambient stream holds %r, expected %r (suppress=%s)' % (part, ambient.getvalue(), ref_amb, suppress)
                if problem:
                    break
        except BaseException as e:      # noqa
            problem = 'the capture protocol raised %s: %s' % (type(e).__name__, str(e)[:100])
        finally:
            sys.stdout = real
        ctx.evaluations += 1
        if problem:
            ctx.violation('capture-protocol', {'what': problem, 'suppress': suppress, 'script': script, 'scenario': sc, 'seed_used': ctx.seed, 'pid_used': ctx.pid,
                          'tier_used': ctx.tier, 'theorem_or_correspondence': 'C12_run_restores / C01_capture_exact on utils.CaptureStdout (reference protocol)'}, True)
            return
    ctx.count('capture_protocol_scenarios', nscen)


def replay_capture_protocol(d, path, pid):
    """re-runs the scenario stream of the recorded seed and reports whether a scenario still breaks the protocol"""
    ctx2 = common.Ctx(d.get('pid_used', pid), d.get('tier_used', 'quick'), d.get('seed_used', 0))
    found = []
    ctx2.violation = lambda kind, payload, found_input=True: found.append(payload)
    capture_protocol(ctx2)
    if found:
        print('capture protocol: %s\nscript (actions, exception) per part: %r' % (found[0]['what'], found[0]['script']))
        print('VIOLATION property=%s replay=%s' % (pid, path))
        return 1
    print('capture protocol: all scenarios of seed %r behave like the reference' % d.get('seed_used'))
    return 0


KEPT = []


def import_cases(ctx):
    from xdoctest.utils import util_import
    from xdoctest import doctest_example
    tmp = tempfile.mkdtemp(prefix='xdverif_c12_')
    try:
        real_path0 = list(sys.path)
        for name, src in IMPORT_MODULES.items():
          for onpath in ('absent', 'front', 'last'):
            # the module's directory may already be an entry of sys.path (a project root, the current directory)
            sys.path[:] = {'absent': real_path0, 'front': [tmp] + real_path0, 'last': real_path0 + [tmp]}[onpath]
            for index in (-1, 0, 'link'):
                # 'link': the module is addressed through a directory that is a symbolic link (a `current -> releases/v12` layout)
                via_link = index == 'link'
                if via_link:
                    index = -1
                    linkdir = os.path.join(tmp, 'current_link')
                    if not os.path.exists(linkdir):
                        os.symlink(tmp, linkdir)
                modname = 'xdverif_c12_%s_%s_%s%s' % (name, 'm1' if index < 0 else '0', onpath, '_l' if via_link else '')
                p = os.path.join(linkdir if via_link else tmp, modname + '.py')
                open(p, 'w').write(src + '\ndef f():\n    """\n    >>> print(1)\n    1\n    """\n')
                ctx.evaluations += 1
                before = snapshot()
                err = None
                try:
                    with warnings.catch_warnings():
                        warnings.simplefilter('ignore')
                        util_import.import_module_from_path(p, index=index)
                except BaseException as e:      # noqa
                    err = e
                after = snapshot()
                problems = []
                # the same module inside a zip archive, addressed as <archive>.zip/<module>.py and <archive>.zip:<module>.py
                if index == -1 and not via_link:
                    import zipfile
                    for sep in ('/', ':'):
                        zname = modname + ('_zs' if sep == '/' else '_zc')
                        zpath = os.path.join(tmp, 'arch_' + zname + '.zip')
                        with zipfile.ZipFile(zpath, 'w') as zf:
                            zf.writestr(zname + '.py', src)
                        ctx.evaluations += 1
                        zb = snapshot()
                        zerr = None
                        try:
                            with warnings.catch_warnings(), contextlib.redirect_stdout(io.StringIO()):
                                warnings.simplefilter('ignore')
                                util_import.import_module_from_path(zpath + sep + zname + '.py')
                        except BaseException as e:      # noqa
                            zerr = e
                        za = snapshot()
                        if sorted(za['path']) != sorted(zb['path']):
                            problems.append('sys.path entries changed by import_module_from_path(<archive>.zip%s%s.py) (%s): added %r removed %r' % (
                                sep, name, 'raised %s' % type(zerr).__name__ if zerr else 'imported', [x for x in za['path'] if x not in zb['path']],
                                [x for x in zb['path'] if x not in za['path']]))
                        if isinstance(zerr, (NameError, AttributeError, TypeError)) or bool(zerr) != (name in ('raises', 'appends_then_raises', 'exits', 'interrupts')):
                            problems.append('import of %s from a zip archive: %s' % (name, 'raised %r' % zerr if zerr else 'did not raise'))
                        sys.stdout = zb['stdout']
                        sys.path[:] = zb['path']
                if sorted(after['path']) != sorted(before['path']):
                    problems.append('sys.path entries changed by import_module_from_path(%s, index=%d): added %r removed %r' % (
                        name, index, [x for x in after['path'] if x not in before['path']], [x for x in before['path'] if x not in after['path']]))
                if after['stdout'] is not before['stdout'] and name != 'wraps_stdout':
                    problems.append('sys.stdout changed by import')
                sys.stdout = before['stdout']
                expect_err = name in ('raises', 'appends_then_raises', 'exits', 'interrupts')
                if bool(err) != expect_err:
                    problems.append('import of %s: %s' % (name, 'raised %r' % err if err else 'did not raise'))
                sys.path[:] = before['path']
                if problems:
                    ctx.violation('import-restores', {'what': '; '.join(problems)[:800], 'module_source': src, 'index': index,
                                  'theorem_or_correspondence': 'C12_path_context / C12_path_recovery on utils.import_module_from_path'}, True)
                # the same through the doctest pre-import
                ctx.evaluations += 1
                modname2 = modname + '_dt'
                p2 = os.path.join(linkdir if via_link else tmp, modname2 + '.py')
                open(p2, 'w').write(src + '\ndef f():\n    """\n    >>> print(1)\n    1\n    """\n')
                ex = doctest_example.DocTest(docsrc='>>> print(1)\n1', modpath=p2, callname='f', lineno=1)
                before = snapshot()
                try:
                    with warnings.catch_warnings():
                        warnings.simplefilter('ignore')
                        so = sys.stdout
                        ex.run(on_error='return', verbose=0)
                except BaseException as e:      # noqa
                    KEPT.append(e)     # a caller that records the outcome keeps the exception (and its frames) alive
                after = snapshot()
                if sorted(after['path']) != sorted(before['path']):
                    ctx.violation('import-restores', {'what': 'DocTest.run pre-import of module %s left sys.path changed: added %r' % (
                        name, [x for x in after['path'] if x not in before['path']]), 'module_source': src,
                        'theorem_or_correspondence': 'C12 pre-import in DocTest.run'}, True)
                if after['stdout'] is not before['stdout']:
                    ctx.violation('import-restores', {'what': 'after DocTest.run whose pre-import of module %s ran, sys.stdout is not the stream from before the run' % name,
                                  'module_source': src, 'theorem_or_correspondence': 'C12_stdout_restored on DocTest.run (pre-import outside the captured parts)'}, True)
                sys.stdout = before['stdout']
                sys.path[:] = before['path']
                # code run through the global_exec option is outside the captured parts too
                if name == 'good' and onpath == 'absent':
                    ctx.evaluations += 1
                    ex = doctest_example.DocTest(docsrc='>>> print(1)\n1', lineno=1)
                    ex.config['global_exec'] = GLOBAL_EXEC_WRAP
                    before = snapshot()
                    try:
                        ex.run(on_error='return', verbose=0)
                    except Exception:
                        pass
                    after = snapshot()
                    if after['stdout'] is not before['stdout']:
                        ctx.violation('import-restores', {'what': 'after DocTest.run with a global_exec preamble that wraps sys.stdout, sys.stdout is not the stream from before the run',
                                      'global_exec': GLOBAL_EXEC_WRAP, 'theorem_or_correspondence': 'C12_stdout_restored on DocTest.run (global_exec outside the captured parts)'}, True)
                    sys.stdout = before['stdout']
        sys.path[:] = real_path0
        # missing file
        before = snapshot()
        try:
            util_import.import_module_from_path(os.path.join(tmp, 'does_not_exist.py'))
        except Exception:
            pass
        after = snapshot()
        ctx.evaluations += 1
        if after['path'] != before['path']:
            ctx.violation('import-restores', {'what': 'sys.path changed by importing a missing file', 'theorem_or_correspondence': 'C12 import'}, True)
    finally:
        shutil.rmtree(tmp, ignore_errors=True)
        for k in [k for k in sys.modules if k.startswith('xdverif_c12_')]:
            del sys.modules[k]


def run(ctx):
    # ---- PythonPathContext vs model --------------------------------------
    cases = ppc_cases(ctx)
    impl = [run_ppc(c) for c in cases]
    enter = common.model_batch([('ppc_enter', c[0], c[1], c[2]) for c in cases])
    reqs = []
    for c, (entered, i, after_body, res) in zip(cases, impl):
        reqs.append(('ppc_exit', after_body, c[1], max(i, 0)))
    exits = common.model_batch(reqs)
    nv = 0
    for c, (entered, i, after_body, res), me, mx in zip(cases, impl, enter, exits):
        ctx.evaluations += 1
        path, d, index, body = c
        in_range = -(len(path) + 1) <= index <= len(path)
        ctx.count('ppc:body=%s' % body)
        ctx.count('ppc:result=%s' % res[0])
        if res[0] != 'ok' or body != 'none':
            ctx.nontrivial += 1
        if not in_range:
            ctx.count('ppc:index-out-of-modelled-range')
            continue
        m_enter = (list(me[0]), me[1])
        m_exit = ('ok', list(mx[1])) if isinstance(mx, list) else (str(mx), after_body)
        problem = None
        if body == 'none' and (res[0] != 'ok' or res[1] != path):
            problem = 'PythonPathContext(%r, index=%d) around a body that leaves sys.path alone: %s, sys.path %r -> %r' % (d, index, res[0], path, res[1])
        if (entered, i) != m_enter or res != m_exit:
            ctx.corr_failures.append(c)
            if nv < 4:
                nv += 1
                ctx.violation('ppc-correspondence', {'what': 'PythonPathContext differs from the model: enter %r/%r exit %r/%r' % ((entered, i), m_enter, res, m_exit),
                              'path': path, 'dpath': d, 'index': index, 'body': body, 'problem': problem,
                              'theorem_or_correspondence': 'correspondence ppc_enter/ppc_exit (feeds C12_path_context, C12_path_recovery)'}, bool(problem))
        elif problem:
            ctx.violation('ppc-restore', {'what': problem, 'path': path, 'dpath': d, 'index': index, 'body': body,
                          'theorem_or_correspondence': 'C12_path_context'}, True)
    # ---- DocTest.run matrix ------------------------------------------------
    F = part_flavours()
    matrix = [(fl, en, pos, oe) for fl in F for en in ENDINGS for pos in ('last', 'first') for oe in ('return', 'raise')]
    nm = 0
    for case in matrix:
        doc, outcome, problems, logged = run_matrix_case(case)
        ctx.evaluations += 1
        ctx.nontrivial += 1
        ctx.count('run:outcome=%s' % outcome)
        ctx.count('run:flavour=%s' % case[0])
        if problems and nm < 6:
            nm += 1
            ctx.violation('not-restored', {'what': '; '.join(problems), 'doctest': doc, 'on_error': case[3], 'outcome': outcome,
                          'theorem_or_correspondence': 'C12_run_restores on DocTest.run'}, True)
        # capture bookkeeping of the flavour part (model: text written while sys.stdout is the capture object)
        written = F[case[0]][2]
        if written is not None and case[2] == 'first' and case[1] in ('pass', 'mismatch', 'expected_exception'):
            pass
    # ---- the same DocTest object run again after sys.stdout legitimately changed in between (a finished redirection):
    # after the second run sys.stdout is the object found before THAT run
    import contextlib as _cl
    from xdoctest import doctest_example as _de
    for ending in ('pass', 'mismatch', 'exception', 'expected_exception'):
        for oe in ('return', 'raise'):
            for vb in (0, 3):
                esrc, ewant = ENDINGS[ending]
                ex = _de.DocTest(docsrc='\n'.join([">>> print('hello')", 'hello'] + esrc + ewant), lineno=1)
                ctx.evaluations += 1
                sink = io.StringIO()
                with _cl.redirect_stdout(sink):
                    try:
                        ex.run(on_error=oe, verbose=vb)
                    except BaseException:      # noqa
                        pass
                before = snapshot()
                buf2 = io.StringIO()
                try:
                    with _cl.redirect_stderr(io.StringIO()):
                        if vb:
                            with _cl.redirect_stdout(buf2):
                                inner_before = sys.stdout
                                try:
                                    ex.run(on_error=oe, verbose=vb)
                                except BaseException:      # noqa
                                    pass
                                inner_ok = sys.stdout is inner_before
                        else:
                            inner_before = sys.stdout
                            try:
                                ex.run(on_error=oe, verbose=vb)
                            except BaseException:      # noqa
                                pass
                            inner_ok = sys.stdout is inner_before
                finally:
                    pass
                after = snapshot()
                problems = compare(before, after)
                if not inner_ok:
                    problems.append('after the second run of the same DocTest sys.stdout is %r, not the object found before that run' % type(sys.stdout).__name__)
                sys.stdout, sys.stderr = before['stdout'], before['stderr']
                if problems and nm < 8:
                    nm += 1
                    ctx.violation('not-restored', {'what': 'second run of the same DocTest object: ' + '; '.join(problems), 'doctest': ex.docsrc, 'on_error': oe,
                                  'outcome': 'rerun', 'theorem_or_correspondence': 'C12_run_restores on a re-used DocTest'}, True)
    # model side of the capture bookkeeping on abstract bodies
    rng = ctx.rng('bodies')
    reqs = []
    expect = []
    for _ in range(400 if ctx.tier == 'quick' else 5000):
        bodies = []
        exp = []
        for _p in range(rng.randint(1, 4)):
            ops = []
            cur = 1
            text = ''
            for _o in range(rng.randint(0, 5)):
                r = rng.random()
                if r < 0.5:
                    t = 't%d' % rng.randint(0, 9)
                    ops.append([Sym('write'), t])
                    if cur == 1:
                        text += t
                elif r < 0.7:
                    cur = rng.choice([1, 7, 8])
                    ops.append([Sym('setstdout'), cur])
                elif r < 0.85:
                    ops.append([Sym('setfilters'), rng.randint(3, 9)])
                else:
                    ops.append([Sym('setshowwarning'), rng.randint(3, 9)])
            bodies.append(ops)
            exp.append(text)
        reqs.append(('run_proc', [5, 6, 11, 12], bodies))
        expect.append(exp)
    ans = common.model_batch(reqs)
    for a, exp in zip(ans, expect):
        ctx.evaluations += 1
        if a[:4] != [5, 6, 11, 12] or list(a[4]) != exp:
            ctx.violation('model-selfcheck', {'what': 'extracted run_proc %r, expected restore + logged %r' % (a, exp),
                          'theorem_or_correspondence': 'C12_run_restores / capture_exact evaluated on the extracted model'}, False)
            break
    import_cases(ctx)
    ambient_streams(ctx)
    after_collection(ctx)
    syspath_entries(ctx)
    capture_protocol(ctx)
    ctx.add_rule('PythonPathContext: seeded sys.path lists x index in {-1,0,1,2,-2,len,-(len+1)} x 11 body manipulations vs model; '
                 'DocTest.run: 9 body flavours (prints, replaces sys.stdout with/without restoring, closes the stream found in sys.stdout directly or through `with`, alters warning filters / showwarning, awaits, touches stderr) x '
                 '10 endings (pass, mismatch, exception, expected exception, ExitTestException, pytest.skip, skipped tail, SystemExit, KeyboardInterrupt, compile error) '
                 'x position x on_error; import_module_from_path and the doctest pre-import on 7 module kinds (incl. modules that rearrange sys.path) x index; '
                 'non-trivial = case where something is altered or raised')
    ctx.sample({'ppc_case': cases[3], 'impl': [impl[3][0], impl[3][1], impl[3][3]]})
    ctx.sample({'doctest': run_matrix_case(('replaces_stdout', 'system_exit', 'last', 'return'))[0]})
    ctx.assumptions += ['`with` runs __exit__ on every way out of its body, BaseException included (CPython; H-with)',
                        'asyncio.run leaves no loop running (checked on the implementation, not modelled)',
                        'index values outside -(len+1)..len are outside the modelled range of PythonPathContext (counted, not compared)']


def replay(path):
    d = json.load(open(path))
    if d.get('kind') == 'capture-protocol':
        return replay_capture_protocol(d, path, 'C12')
    if 'doctest' in d:
        from xdoctest import doctest_example
        ex = doctest_example.DocTest(docsrc=d['doctest'], lineno=1)
        before = snapshot()
        try:
            ex.run(on_error=d.get('on_error', 'return'), verbose=0)
            after = snapshot()
        except BaseException as e:      # noqa
            print('raised', type(e).__name__)
            after = snapshot()
        problems = compare(before, after)
        sys.stdout = before['stdout']
        print('problems=%r' % problems)
        if problems:
            print('VIOLATION property=C12 replay=%s' % path)
            return 1
        return 0
    if 'path' in d:
        c = (d['path'], d['dpath'], d['index'], d['body'])
        entered, i, after_body, res = run_ppc(c)
        me = common.model_call('ppc_enter', c[0], c[1], c[2])
        mx = common.model_call('ppc_exit', after_body, c[1], max(i, 0))
        print('impl enter=%r i=%r exit=%r\nmodel enter=%r exit=%r' % (entered, i, res, me, mx))
        m_exit = ('ok', list(mx[1])) if isinstance(mx, list) else (str(mx), after_body)
        if (entered, i) != (list(me[0]), me[1]) or res != m_exit or (d['body'] == 'none' and res != ('ok', d['path'])):
            print('VIOLATION property=C12 replay=%s' % path)
            return 1
        return 0
    print(json.dumps(d, indent=1)[:2000])
    print('VIOLATION property=C12 replay=%s' % path)
    return 1
