"""C06 — Ellipsis is a true wildcard.

Theorem side: Props/C06.v (ellipsis_match = EllMatch for all strings).
Correspondence: checker._ellipsis_match vs the extracted ellipsis_match on every
(got, want) over {a, b, space, newline, '.'} up to a length bound; re.split vs
split_ell; random longer derived pairs.
Search: any disagreement is, by C06_ellipsis_iff, an input on which the
implementation departs from the declarative relation; an independent
brute-force evaluation of EllMatch in Python confirms it before it is reported.
"""
import contextlib
import io
import json
import os
import re

from harness import common
from harness.common import Sym

ALPHA = 'ab \n.'


# ---------------------------------------------------------------------------
# independent specification (brute force, no greedy scan, no re.split)
# ---------------------------------------------------------------------------
def spec_split(want):
    """pieces of want around each leftmost \\s*...\\s* separator, written as an
    explicit scan (independent of re and of the Coq scanner's state machine)"""
    pieces = []
    i = 0
    cur_start = 0
    n = len(want)
    while i < n:
        # does a separator start at i ?  (whitespace run then '...')
        j = i
        while j < n and want[j].isspace():
            j += 1
        if want.startswith('...', j):
            pieces.append(want[cur_start:i])
            j += 3
            while j < n and want[j].isspace():
                j += 1
            i = j
            cur_start = j
        else:
            i += 1
    pieces.append(want[cur_start:])
    return pieces


def in_order(mids, rest):
    """exists a placement of the pieces, in order, non overlapping, inside rest
    (full backtracking search: not greedy)"""
    if not mids:
        return True
    p = mids[0]
    start = 0
    while True:
        k = rest.find(p, start)
        if k < 0:
            return False
        if in_order(mids[1:], rest[k + len(p):]):
            return True
        start = k + 1
        if start > len(rest):
            return False


def spec_ellmatch(got, want):
    if '...' not in want:
        return got == want
    ws = spec_split(want)
    w0, mids, wl = ws[0], ws[1:-1], ws[-1]
    if not got.startswith(w0) or not got.endswith(wl):
        return False
    if len(w0) + len(wl) > len(got):
        return False
    rest = got[len(w0):len(got) - len(wl)]
    return in_order(mids, rest)


# ---------------------------------------------------------------------------
def _impl():
    from xdoctest import checker
    return checker


def _em_bit(checker, g, w):
    """'1' / '0', or 'E' when the matcher raises instead of answering"""
    try:
        return '1' if checker._ellipsis_match(g, w) else '0'
    except Exception:      # noqa
        return 'E'


def _chunk_worker(args):
    wants, maxgot = args
    checker = _impl()
    gots = list(common.iter_strings(ALPHA, maxgot))
    reqs = [('forall_str', ALPHA, maxgot, Sym('bits'), [Sym('ellipsis_match'), Sym('_'), w]) for w in wants]
    ans = common.model_batch(reqs, raw=True)
    out = []
    n_true = 0
    for w, a in zip(wants, ans):
        bits = ''.join(_em_bit(checker, g, w) for g in gots)
        n_true += bits.count('1')
        if bits != a:
            # first differing got
            for k, (x, y) in enumerate(zip(bits, a)):
                if x != y:
                    out.append((gots[k], w, 'raised' if x == 'E' else x == '1', y == '1'))
                    break
            else:
                out.append((None, w, None, None))
    return out, n_true


def report_pair(ctx, got, want, impl_v, model_v, where):
    spec_v = spec_ellmatch(got, want)
    payload = {
        'what': '_ellipsis_match(got, want) departs from the wildcard relation',
        'got': got, 'want': want, 'impl': impl_v, 'model': model_v, 'spec_bruteforce': spec_v,
        'where': where,
        'theorem_or_correspondence': 'correspondence ellipsis_match/_ellipsis_match + C06_ellipsis_iff',
        'replay': "checker._ellipsis_match(got, want) vs spec_ellmatch(got, want)",
    }
    ctx.corr_failures.append(payload)
    if impl_v == 'raised':
        payload['what'] = '_ellipsis_match(got, want) raises instead of answering (the wildcard relation says %s)' % spec_v
        ctx.violation('ellipsis-relation', payload, found_input=True)
    elif impl_v != spec_v:
        ctx.violation('ellipsis-relation', payload, found_input=True)
    else:
        # the implementation agrees with the independent spec but not with the model: our model is off
        ctx.violation('ellipsis-correspondence', payload, found_input=False)


def run(ctx):
    checker = _impl()
    from xdoctest import directive
    # "with ELLIPSIS disabled '...' has no special meaning" on every comparison path of a part (stdout, value, fallback)
    from harness.props import c02
    c02.gvw_unit(ctx)
    quick = ctx.tier == 'quick'
    maxgot = 5 if quick else 6
    maxwant_marker = 6 if quick else 7
    maxwant_all = 4 if quick else 5

    # ---- corpus first --------------------------------------------------
    cdir = os.path.join(common.VERIF, 'corpus', 'C06')
    corpus = []
    if os.path.isdir(cdir):
        for fn in sorted(os.listdir(cdir)):
            if fn.endswith('.json'):
                corpus.extend(json.load(open(os.path.join(cdir, fn))))
    if corpus:
        ans = common.model_batch([('ellipsis_match', g, w) for g, w in corpus])
        for (g, w), m in zip(corpus, ans):
            i = {'1': True, '0': False, 'E': 'raised'}[_em_bit(checker, g, w)]
            ctx.evaluations += 1
            if i != m or i != spec_ellmatch(g, w):
                report_pair(ctx, g, w, i, m, 'corpus')
        ctx.count('corpus_pairs', len(corpus))

    # ---- the splitter: re.split vs split_ell vs spec_split, exhaustive ----
    maxsplit = 7 if quick else 8
    strs = list(common.iter_strings(ALPHA, maxsplit))
    digest = common.model_call('forall_str', ALPHA, maxsplit, Sym('digest'), [Sym('split_ell'), Sym('_')])
    mine = []
    nsplit_bad = 0
    for s in strs:
        exp = re.split(r'\s*{}\s*'.format(re.escape(checker.ELLIPSIS_MARKER)), s, flags=re.MULTILINE)
        if exp != spec_split(s):
            nsplit_bad += 1
            if nsplit_bad <= 3:
                ctx.violation('split-spec', {'string': s, 're_split': exp, 'spec_split': spec_split(s),
                              'theorem_or_correspondence': 'spec_split vs re.split'}, found_input=False)
        mine.append(common.sx_enc(exp))
    ctx.evaluations += len(strs)
    ctx.count('split_strings', len(strs))
    if common.md5_join(mine) != str(digest):
        # locate
        ans = common.model_batch([('split_ell', s) for s in strs])
        for s, a, m in zip(strs, ans, mine):
            if common.sx_enc(a) != m:
                ctx.violation('split-correspondence', {'string': s, 'model': a, 'impl': m,
                              'theorem_or_correspondence': 'correspondence split_ell / re.split'},
                              found_input=False)
                break

    # ---- exhaustive pairs ---------------------------------------------------
    wants = [w for w in common.iter_strings(ALPHA, maxwant_marker)
             if ('...' in w) or len(w) <= maxwant_all]
    ngots = common.count_strings(len(ALPHA), maxgot)
    nchunks = common.NPROC * 8
    chunks = [(wants[i::nchunks], maxgot) for i in range(nchunks) if wants[i::nchunks]]
    results = common.pmap(_chunk_worker, chunks)
    n_true = 0
    bad = []
    for out, t in results:
        n_true += t
        bad.extend(out)
    n_marker = sum(1 for w in wants if '...' in w)
    ctx.evaluations += len(wants) * ngots
    ctx.nontrivial += n_marker * ngots
    ctx.count('exhaustive_wants', len(wants))
    ctx.count('exhaustive_wants_with_marker', n_marker)
    ctx.count('exhaustive_gots', ngots)
    ctx.count('exhaustive_pairs_matching', n_true)
    ctx.exhaustive = True
    ctx.add_rule('every (got, want) over %r with |got|<=%d and (|want|<=%d containing "..." or |want|<=%d): '
                 'implementation vs extracted model, bit for bit; non-trivial = want contains the marker (distinct by enumeration)'
                 % (ALPHA, maxgot, maxwant_marker, maxwant_all))
    for got, want, iv, mv in sorted(bad, key=lambda t: (len(t[1]), t[1]))[:5]:
        if got is None:
            ctx.violation('ellipsis-correspondence', {'want': want, 'theorem_or_correspondence':
                          'bit vector length mismatch'}, found_input=False)
        else:
            report_pair(ctx, got, want, iv, mv, 'exhaustive')
    ctx.sample({'got': 'ab', 'want': 'a...b...b', 'impl': _em_bit(checker, 'ab', 'a...b...b')})
    ctx.sample({'got': 'a b.a', 'want': 'a ... .a', 'impl': _em_bit(checker, 'a b.a', 'a ... .a')})

    # ---- random longer derived pairs ----------------------------------------
    rng = ctx.rng('random')
    nrand = 20000 if quick else 300000
    wide = ALPHA + 'cd\t.\r\x0c\xa0x1_ '
    pairs = []
    # deterministic family: k markers for k = 1..24 (a bound on the number of splits is invisible below it)
    for k in range(1, 25):
        for sep in ['...', ' ... ', '...\n']:
            pairs.append(('a' * (k + 1), 'a' + (sep + 'a') * k))
            pairs.append(('ab' * (k + 1), 'a' + (sep + 'a') * k))
            pairs.append((' '.join('x%d' % i for i in range(k + 1)), sep.join('x%d' % i for i in range(k + 1))))
            pairs.append(('b' * k, sep * k))
    for _ in range(nrand):
        many = rng.random() < 0.25
        n = rng.randint(30, 90) if many else rng.randint(4, 40)
        got = ''.join(rng.choice(wide if rng.random() < 0.3 else ALPHA) for _ in range(n))
        want = got
        for _k in range(rng.randint(5, 18) if many else rng.randint(1, 4)):
            if not want:
                break
            a = rng.randint(0, len(want))
            b = min(len(want), a + rng.randint(0, 3 if many else 6))
            sep = rng.choice(['...', ' ...', '... ', ' ... ', '\n...\n', '...'])
            want = want[:a] + sep + want[b:]
        r = rng.random()
        if r < 0.35 and want:
            k = rng.randrange(len(want))
            want = want[:k] + rng.choice(ALPHA) + want[k + 1:]
        elif r < 0.55 and got:
            k = rng.randrange(len(got))
            got = got[:k] + rng.choice(ALPHA) + got[k + 1:]
        elif r < 0.65 and got:
            k = rng.randrange(len(got))
            got = got[:k] + got[k + 1:]
        pairs.append((got, want))
    ans = []
    step = 2000
    batches = [pairs[i:i + step] for i in range(0, len(pairs), step)]
    for res in common.pmap(_rand_worker, batches):
        ans.extend(res)
    n_rand_true = 0
    seen = set()
    for (g, w), (iv, mv) in zip(pairs, ans):
        ctx.evaluations += 1
        if (g, w) not in seen:
            seen.add((g, w))
            ctx.nontrivial += 1 if '...' in w else 0
        n_rand_true += 1 if iv else 0
        if iv != mv:
            report_pair(ctx, g, w, iv, mv, 'random')
            if len(ctx.violations) > 5:
                break
    ctx.count('random_pairs', len(pairs))
    ctx.count('random_pairs_matching', n_rand_true)
    ctx.sample({'random_pair': pairs[0], 'impl': ans[0][0]})
    ctx.add_rule('%d random pairs (seeded) of length 4..40: want derived from got by replacing 1-4 substrings '
                 'with "..." (with/without surrounding whitespace), then one character of either side mutated or deleted' % nrand)

    # ---- "with ELLIPSIS disabled '...' has no special meaning" (metamorphic, implementation only)
    # over this alphabet '.' is an ordinary non-space character for every normalisation step, so
    # renaming '.' to a fresh letter in both texts must not change the verdict when ELLIPSIS is off,
    # and a want without marker must give the same verdict with ELLIPSIS on and off.
    off = directive.RuntimeState({'ELLIPSIS': False, 'NORMALIZE_WHITESPACE': False, 'NORMALIZE_REPR': False,
                                  'IGNORE_WHITESPACE': False})
    on = directive.RuntimeState({'ELLIPSIS': True, 'NORMALIZE_WHITESPACE': False, 'NORMALIZE_REPR': False,
                                 'IGNORE_WHITESPACE': False})
    ml = 4 if quick else 5
    small = list(common.iter_strings(ALPHA, ml))
    nmeta = 0
    for w in small:
        if not w:
            continue
        has = '...' in w
        w2 = w.replace('.', 'c')
        for g in small:
            v_off = checker.check_output(g, w, off)
            nmeta += 1
            if has:
                if v_off != checker.check_output(g.replace('.', 'c'), w2, off):
                    ctx.violation('ellipsis-disabled-special', {
                        'what': "with ELLIPSIS off, '...' changed the verdict compared with an ordinary letter",
                        'got': g, 'want': w, 'verdict': v_off,
                        'theorem_or_correspondence': 'metamorphic check on check_output(-ELLIPSIS)'}, True)
                    break
            else:
                if v_off != checker.check_output(g, w, on):
                    ctx.violation('ellipsis-enabled-without-marker', {
                        'what': 'a want without "..." is judged differently with ELLIPSIS on and off',
                        'got': g, 'want': w, 'off': v_off,
                        'theorem_or_correspondence': 'metamorphic check on check_output(+/-ELLIPSIS)'}, True)
                    break
        if len(ctx.violations) > 5:
            break
    # ---- with ELLIPSIS enabled (and every other leniency off) check_output itself must realise the wildcard relation:
    # on texts the unconditional steps leave alone (no trailing blanks, no marker text, no colour codes)
    strict_on = directive.RuntimeState({'ELLIPSIS': True, 'NORMALIZE_WHITESPACE': False, 'NORMALIZE_REPR': False,
                                        'IGNORE_WHITESPACE': False, 'DONT_ACCEPT_BLANKLINE': True})
    clean = [t for t in small if t == t.strip() and ' \n' not in t and '\t' not in t]
    non = 0
    import itertools as _it
    toks = ['a', 'b', ' ', '\n', '...']
    wants_rel = sorted({''.join(t) for n_t in range(1, 5) for t in _it.product(toks, repeat=n_t)})
    wants_rel = [t for t in wants_rel if t == t.strip() and ' \n' not in t]
    for w in wants_rel:
        if not w:
            continue
        for g in clean:
            non += 1
            exp = (g == w) or spec_ellmatch(g, w)
            if bool(checker.check_output(g, w, strict_on)) != exp:
                ctx.violation('ellipsis-enabled-relation', {
                    'what': "with ELLIPSIS on and every other leniency off check_output is %s, the wildcard relation says %s" % (not exp, exp),
                    'got': g, 'want': w, 'theorem_or_correspondence': 'C06_ellipsis_iff lifted to check_output(+ELLIPSIS)'}, True)
                break
        if len([v for v in ctx.violations if v['kind'] == 'ellipsis-enabled-relation']) > 2:
            break
    # the same with TAB characters inside the literal pieces (a TAB is an ordinary character of a piece; only blanks
    # directly next to a marker belong to the wildcard)
    tp = ['a\tb', 'x', 'a', 'yz', 'b', 'a\tb\tc', 'wide\tcol']
    tgots = sorted({''.join(t) for n_t in (1, 2, 3) for t in _it.product(tp, repeat=n_t)})
    twants = sorted({m.join(t) for n_t in (2, 3) for t in _it.product(tp + [''], repeat=n_t) for m in ('...', ' ... ')})
    twants = [t for t in twants if t == t.strip() and '...' in t]
    for w in twants:
        for g in tgots:
            non += 1
            exp = (g == w) or spec_ellmatch(g, w)
            if bool(checker.check_output(g, w, strict_on)) != exp:
                ctx.violation('ellipsis-enabled-relation', {
                    'what': "with ELLIPSIS on and every other leniency off check_output is %s, the wildcard relation says %s (texts with TAB)" % (not exp, exp),
                    'got': g, 'want': w, 'theorem_or_correspondence': 'C06_ellipsis_iff lifted to check_output(+ELLIPSIS)'}, True)
                break
        if len([v for v in ctx.violations if v['kind'] == 'ellipsis-enabled-relation']) > 2:
            break
    # characters that merely LOOK like dots (one-character ellipsis, full-width / one-dot / two-dot leaders) or that have a
    # compatibility decomposition are ordinary characters of a piece: only three ASCII full stops are the wildcard
    lp = ['a', '\u2026', 'b\u2026', '\uff0e\uff0e\uff0e', '\u2025.', '\u2024\u2024\u2024', 'x', '\ufb01', 'fi', '\xb2', '2', ' tail']
    lgots = sorted({''.join(t) for n_t in (1, 2, 3) for t in _it.product(lp, repeat=n_t)})
    lwants = sorted({m.join(t) for t in _it.product(lp + [''], repeat=2) for m in ('...', ' ... ', '')} | set(lgots[:200]))
    lwants = [t for t in lwants if t and t == t.strip()]
    for w in lwants:
        for g in lgots:
            if g != g.strip():
                continue
            non += 1
            exp = (g == w) or ('...' in w and spec_ellmatch(g, w))
            if bool(checker.check_output(g, w, strict_on)) != exp:
                ctx.violation('ellipsis-enabled-relation', {
                    'what': "with ELLIPSIS on and every other leniency off check_output is %s, the wildcard relation says %s (dot-like characters)" % (not exp, exp),
                    'got': g, 'want': w, 'theorem_or_correspondence': 'C06_ellipsis_iff lifted to check_output(+ELLIPSIS)'}, True)
                break
        if len([v for v in ctx.violations if v['kind'] == 'ellipsis-enabled-relation']) > 2:
            break
    # white space other than blank and tab at the end of an inner line (form feed, vertical tab, no-break space, separators) is text:
    # only blanks and tabs are dropped at line ends
    wp = ['page 1\x0c\nline a', 'page 1\nline a', 'x\x0b\ny', 'x\ny', 'a\xa0\nb', 'a\nb', 'u\x1c\nv', 'u\nv', 'k\u2028\nm', 'end', 'z']
    wgots = sorted({'\n'.join(t) for n_t in (1, 2) for t in _it.product(wp, repeat=n_t)})
    wwants = sorted({m.join(t) for t in _it.product(wp + [''], repeat=2) for m in ('...', ' ... ', '\n...\n')})
    wwants = [t for t in wwants if t and t == t.strip() and '...' in t]
    # (also with the <BLANKLINE> marker accepted - the default -: these texts hold no marker, so nothing else changes)
    strict_on_bl = directive.RuntimeState({'ELLIPSIS': True, 'NORMALIZE_WHITESPACE': False, 'NORMALIZE_REPR': False,
                                           'IGNORE_WHITESPACE': False, 'DONT_ACCEPT_BLANKLINE': False})
    for w in wwants:
        for g in wgots:
            non += 1
            exp = (g == w) or spec_ellmatch(g, w)
            if bool(checker.check_output(g, w, strict_on)) != exp or bool(checker.check_output(g, w, strict_on_bl)) != exp:
                ctx.violation('ellipsis-enabled-relation', {
                    'what': "with ELLIPSIS on and every other leniency off check_output is %s, the wildcard relation says %s (white space other than blank/tab at line ends; marker accepted or not)" % (not exp, exp),
                    'got': g, 'want': w, 'theorem_or_correspondence': 'C06_ellipsis_iff lifted to check_output(+ELLIPSIS)'}, True)
                break
        if len([v for v in ctx.violations if v['kind'] == 'ellipsis-enabled-relation']) > 2:
            break
    # terminal control sequences other than colours are text like any other: window titles and hyperlinks (OSC sequences, ended by BEL or
    # by ESC backslash, as `ls --hyperlink`, gcc and rich write them) - the visible words between two of them are pieces like all others
    def link(url, text):
        return '\x1b]8;;%s\x1b\\%s\x1b]8;;\x1b\\' % (url, text)
    ogots = ['wrote ' + link('file:///tmp/report.html', 'report.html') + ' and ' + link('file:///tmp/log.txt', 'log.txt') + ' (2 files)',
             '\x1b]0;build\x07step one\nstep two \x1b]0;done\x07finished',
             link('http://a', 'alpha') + '\n' + link('http://b', 'beta') + '\n' + link('http://c', 'gamma'),
             'title \x1b]2;x\x1b\\ body \x1b]2;y\x1b\\ tail']
    owants = ['... report.html ... log.txt ...', 'wrote ... report.html... and ...log.txt... (2 files)', '... wrote (2 files)', '...step one\nstep two ...finished',
              '...alpha...beta...gamma...', '...beta...alpha...', 'title ... body ... tail', 'title ... tail', '... body ...', 'title ...y... tail', '... (2 files)']
    for w in owants:
        for g in ogots:
            non += 1
            exp = spec_ellmatch(g, w)
            if bool(checker.check_output(g, w, strict_on)) != exp:
                ctx.violation('ellipsis-enabled-relation', {
                    'what': "with ELLIPSIS on and every other leniency off check_output is %s, the wildcard relation says %s (texts with terminal hyperlinks / titles)" % (not exp, exp),
                    'got': g, 'want': w, 'theorem_or_correspondence': 'C06_ellipsis_iff lifted to check_output(+ELLIPSIS)'}, True)
    ctx.evaluations += non
    ctx.count('enabled_relation_pairs', non)
    # ---- end to end: the flag as doctests switch it (every directive spelling, inline and block), on real DocTest runs
    from xdoctest import doctest_example
    ne2e = 0
    for prefix in ('xdoctest', 'xdoc', 'doctest'):
        for sign in ('+', '-'):
            # layouts: the directive on the statement's line (inline); on a prompt line of its own (block), then possibly spacing
            # in front of the statement: empty prompt lines, a remark, an empty continuation line
            for inline, spacer in ((False, []), (True, []), (False, ['>>>']), (False, ['>>>', '>>>']), (False, ['>>> # a remark']), (False, ['>>> ']),
                                   (False, ['>>> # a remark', '>>>'])):
                for out, want, wild in (('alpha beta gamma', 'alpha ... gamma', True), ('alpha beta gamma', 'alpha...gamma', True),
                                        ('a...b', 'a...b', False), ('one two', 'one ... three', None)):
                    d = '# %s: %sELLIPSIS' % (prefix, sign)
                    lines = ([] if inline else ['>>> ' + d]) + spacer + [">>> print(%r)%s" % (out, ('  ' + d) if inline else ''), want]
                    ex = doctest_example.DocTest(docsrc='\n'.join(lines), lineno=1)
                    with contextlib.redirect_stdout(io.StringIO()):
                        try:
                            summ = ex.run(verbose=0, on_error='return')
                            passed = bool(summ['passed'])
                        except BaseException as e:      # noqa
                            passed = 'raised %s' % type(e).__name__
                    ne2e += 1
                    # wild=True: matches only through the wildcard; False: identical text; None: matches neither way
                    exp = (sign == '+') if wild is True else (wild is False)
                    if passed != exp:
                        ctx.violation('ellipsis-directive', {
                            'what': 'doctest with directive %r: passed=%r, by construction %r' % (d, passed, exp), 'doctest': '\n'.join(lines),
                            'got': out, 'want': want, 'expected_pass': exp, 'theorem_or_correspondence': 'C06 on DocTest.run with the flag set by a directive'}, True)
    # a want that BEGINS with the wildcard, followed by white space other than a plain blank (no-break space, em space, ideographic
    # space, unit separator) and text: a want line, not a continuation of the source
    for ws in ('\xa0', '\u2003', '\u3000', '\x1f', ' ', '\t'):
        for out, tail, exp in (('alpha beta tail', 'tail', True), ('alpha beta', 'tail', False), ('tail', 'tail', True), ('alpha tail beta', 'tail', False)):
            for sign in ('+', '-'):
                lines = ['>>> # xdoctest: %sELLIPSIS' % sign, '>>> print(%r)' % out, '...' + ws + tail]
                ex = doctest_example.DocTest(docsrc='\n'.join(lines), lineno=1)
                with contextlib.redirect_stdout(io.StringIO()):
                    try:
                        passed = bool(ex.run(verbose=0, on_error='return')['passed'])
                    except BaseException as e:      # noqa
                        passed = 'raised %s' % type(e).__name__
                ne2e += 1
                want_pass = exp and sign == '+'
                if ws in (' ', '\t'):
                    continue        # '... tail' IS a continuation line by the doctest syntax: no expectation, only that nothing escapes
                if passed != want_pass:
                    ctx.violation('ellipsis-directive', {
                        'what': 'a want that begins with the wildcard and %r: passed=%r, by construction %r' % (ws, passed, want_pass), 'doctest': '\n'.join(lines),
                        'got': out, 'want': '...' + ws + tail, 'expected_pass': want_pass, 'theorem_or_correspondence': 'C06 on DocTest.run, want beginning with the wildcard'}, True)
    # a want whose FIRST line is the bare wildcard, below a one-line statement; an earlier statement of the same run of source lines is
    # written with continuation lines (the bare '...' belongs to the want: it does not continue a statement that is complete)
    for pre in ([], ['>>> if True:', '...     x = 1'], ['>>> y = [1,', '...      2]', '>>> z = 3'], ['>>> def f():', '...     return 1', '...', '>>> f()', '1']):
        for out, tail, exp in (('junk\\nb', ['b'], True), ('junk\\nmore\\nb', ['b'], True), ('junk\\nc', ['b'], False), ('b', ['b'], True)):
            for sign in ('+', '-'):
                lines = ['>>> # xdoctest: %sELLIPSIS' % sign] + pre + [">>> print('%s')" % out, '...'] + tail
                ex = doctest_example.DocTest(docsrc='\n'.join(lines), lineno=1)
                with contextlib.redirect_stdout(io.StringIO()):
                    try:
                        passed = bool(ex.run(verbose=0, on_error='return')['passed'])
                    except BaseException as e:      # noqa
                        passed = 'raised %s' % type(e).__name__
                ne2e += 1
                want_pass = exp and sign == '+'
                if passed != want_pass:
                    ctx.violation('ellipsis-directive', {
                        'what': 'a want whose first line is the bare wildcard: passed=%r, by construction %r' % (passed, want_pass), 'doctest': '\n'.join(lines),
                        'got': out, 'want': '...\n' + '\n'.join(tail), 'expected_pass': want_pass, 'theorem_or_correspondence': 'C06 on DocTest.run, want beginning with a bare wildcard line'}, True)
    # the want of an expected exception: '...' is the same wildcard in its final line, in the message as in the type name, whichever
    # other leniency is switched on next to it
    for extra in ('', ', +IGNORE_EXCEPTION_DETAIL', ', +NORMALIZE_WHITESPACE', ', +NORMALIZE_REPR'):
        for sign in ('+', '-'):
            for code, final, wild in (("raise ValueError('x1')", 'Val...Error: x1', 'type'), ("raise ValueError('alpha beta')", 'ValueError: alpha ...', 'msg'),
                                      ("raise LookupError('a...b')", 'LookupError: a...b', None), ("import json.decoder as jd; jd.JSONDecoder().decode('')", 'json...Error: Expecting ...', 'type'),
                                      ("raise KeyError('k')", 'Ke...or: ...', 'type')):
                d = '# xdoctest: %sELLIPSIS%s' % (sign, extra)
                lines = ['>>> ' + d, '>>> ' + code, 'Traceback (most recent call last):', final]
                ex = doctest_example.DocTest(docsrc='\n'.join(lines), lineno=1)
                with contextlib.redirect_stdout(io.StringIO()):
                    try:
                        passed = bool(ex.run(verbose=0, on_error='return')['passed'])
                    except BaseException as e:      # noqa
                        passed = 'raised %s' % type(e).__name__
                ne2e += 1
                # None: identical text; 'msg': the type is written out, so IGNORE_EXCEPTION_DETAIL alone accepts it as well
                exp = True if wild is None else (sign == '+' or (wild == 'msg' and 'EXCEPTION_DETAIL' in extra))
                if passed != exp:
                    ctx.violation('ellipsis-directive', {
                        'what': 'expected-exception doctest with directive %r: passed=%r, by construction %r' % (d, passed, exp), 'doctest': '\n'.join(lines),
                        'got': code, 'want': final, 'expected_pass': exp, 'theorem_or_correspondence': 'C06 on DocTest.run, want of an expected exception'}, True)
    # the flag a doctest sees is its own: a run hands one options dict to every doctest, and a block directive of an earlier
    # doctest must not decide whether '...' is a wildcard in a later one
    for dflt in ({'ELLIPSIS': True}, {'ELLIPSIS': False}, {'NORMALIZE_WHITESPACE': False}):
        for sign in ('+', '-'):
            for out, want, wild in (('alpha beta gamma', 'alpha ... gamma', True), ('a...b', 'a...b', False)):
                docs = ['>>> # xdoctest: %sELLIPSIS\n>>> print(1)\n1' % sign, ">>> print(%r)\n%s" % (out, want)]
                exp = [True, dflt.get('ELLIPSIS', True) if wild else True]
                got_v = _e2e_history(docs, dict(dflt))
                ne2e += 1
                if got_v != exp:
                    ctx.violation('ellipsis-history', {
                        'what': 'doctests run one after the other over shared default options %r: passed=%r, by construction %r' % (dflt, got_v, exp),
                        'history': docs, 'default_runtime_state': dflt, 'expected_pass': exp,
                        'theorem_or_correspondence': 'C06 on DocTest.run with the flag left at its default'}, True)
    ctx.evaluations += ne2e
    ctx.count('directive_end_to_end', ne2e)
    ctx.evaluations += nmeta
    ctx.count('disabled_metamorphic_pairs', nmeta)
    ctx.add_rule('check_output under -ELLIPSIS: all pairs of length <= %d, renaming "." to a fresh letter must not change the verdict' % ml)
    ctx.assumptions += [
        'model <-> code tie is the correspondence run above (differential test, bounded)',
        'characters outside {0..255, U+2028, U+3000} are not generated',
    ]


def _e2e_history(docs, shared):
    from xdoctest import doctest_example
    import contextlib, io
    res = []
    for doc in docs:
        ex = doctest_example.DocTest(docsrc=doc, lineno=1)
        ex.config['default_runtime_state'] = shared
        with contextlib.redirect_stdout(io.StringIO()):
            try:
                res.append(bool(ex.run(verbose=0, on_error='return')['passed']))
            except BaseException as e:      # noqa
                res.append('raised %s' % type(e).__name__)
    return res


def _rand_worker(pairs):
    checker = _impl()
    ans = common.model_batch([('ellipsis_match', g, w) for g, w in pairs])
    return [({'1': True, '0': False, 'E': 'raised'}[_em_bit(checker, g, w)], m) for (g, w), m in zip(pairs, ans)]


def replay(path):
    checker = _impl()
    d = json.load(open(path))
    if d.get('kind') == 'gvw-unit':
        from harness.props import c02
        return c02.replay_gvw(d, path, 'C06')
    if d.get('kind') == 'ellipsis-history':
        got_v = _e2e_history(d['history'], dict(d['default_runtime_state']))
        print('history:\n%s\npassed=%r expected=%r' % ('\n--\n'.join(d['history']), got_v, d['expected_pass']))
        if got_v != d['expected_pass']:
            print('VIOLATION property=C06 replay=%s' % path)
            return 1
        return 0
    if d.get('kind') == 'ellipsis-directive':
        from xdoctest import doctest_example
        import contextlib, io
        ex = doctest_example.DocTest(docsrc=d['doctest'], lineno=1)
        with contextlib.redirect_stdout(io.StringIO()):
            try:
                passed = bool(ex.run(verbose=0, on_error='return')['passed'])
            except BaseException as e:      # noqa
                passed = 'raised %s' % type(e).__name__
        print('doctest:\n%s\npassed=%r expected=%r' % (d['doctest'], passed, d['expected_pass']))
        if passed != d['expected_pass']:
            print('VIOLATION property=C06 replay=%s' % path)
            return 1
        return 0
    got, want = d.get('got'), d.get('want')
    if got is None or want is None:
        print('replay file names no input:', d.get('theorem_or_correspondence'))
        return 1
    if d.get('kind') == 'ellipsis-enabled-relation':
        from xdoctest import directive
        rs = directive.RuntimeState({'ELLIPSIS': True, 'NORMALIZE_WHITESPACE': False, 'NORMALIZE_REPR': False,
                                     'IGNORE_WHITESPACE': False, 'DONT_ACCEPT_BLANKLINE': True})
        iv = bool(checker.check_output(got, want, rs))
        sv = (got == want) or spec_ellmatch(got, want)
    elif d.get('kind') in ('ellipsis-disabled-special', 'ellipsis-enabled-without-marker'):
        from xdoctest import directive
        off = directive.RuntimeState({'ELLIPSIS': False, 'NORMALIZE_WHITESPACE': False, 'NORMALIZE_REPR': False, 'IGNORE_WHITESPACE': False})
        on = directive.RuntimeState({'ELLIPSIS': True, 'NORMALIZE_WHITESPACE': False, 'NORMALIZE_REPR': False, 'IGNORE_WHITESPACE': False})
        iv = bool(checker.check_output(got, want, off))
        sv = bool(checker.check_output(got.replace('.', 'c'), want.replace('.', 'c'), off)) if '...' in want else bool(checker.check_output(got, want, on))
    else:
        iv = {'1': True, '0': False, 'E': 'raised'}[_em_bit(checker, got, want)]
        sv = spec_ellmatch(got, want)
    print('got=%r want=%r implementation=%r expected=%r' % (got, want, iv, sv))
    if iv != sv:
        print('VIOLATION property=C06 replay=%s' % path)
        return 1
    return 0
