"""C18 — Displayed doctest source is faithful and re-parses to the same doctest.

Theorems: Props/C18.v (format_src without numbers = every source and want line once, in order; with numbers the
k-th source line of a part shows startline + line_offset + k; those numbers are positions when offsets are positions).
Correspondence: DocTest.format_src on doctests from the program generator x {prompts on/off} x {wants on/off} x
{no numbers, doctest-relative, file-relative with a random lineno} vs the extracted Format model, character for
character; n_digits (float log10 in the code) vs the model's integer version for every endline <= 20000.
Search (model independent): the un-numbered text must be the parts' lines; parsing it again must give the same
executable lines, wants and compile modes; every displayed number must be the position of that line in the doctest,
and - for doctests collected from generated module files (google and freeform, also behind skipped blocks with
wants) - the file line holding that text.
"""
import json
import math
import os
import re
import shutil
import sys
import tempfile
import warnings

from harness import common, gendoc, runmodel
from harness.common import Sym


def model_parts(ex):
    return [runmodel.part_data(p) for p in ex._parts]


def gen_docs(ctx):
    rng = ctx.rng('programs')
    docs = []
    for _ in range(1200 if ctx.tier == 'quick' else 20000):
        stmts = gendoc.gen_program(rng)
        text, wants = gendoc.render_layout(rng, stmts, terminators=True)
        if rng.random() < 0.15 and "'''" not in text and '"""' not in text:
            # (not in docstrings with multi-line string literals: cutting a string-body line in two leaves text LEFT of the prompt
            # column, which is not a well-formed docstring -- the parser drops such characters, see DESIGN A.6)
            # a line boundary other than '\n' (form feed, NEL, U+2028 ...) inside a want or prose line: what str.splitlines calls
            # a line is a line everywhere -- in the parts, in the display and in the numbering
            ls = text.split('\n')
            cand = [i for i, l in enumerate(ls) if l.strip() and not l.lstrip().startswith(('>>>', '...')) and len(l.strip()) > 2]
            if cand:
                i = rng.choice(cand)
                k = len(ls[i]) - len(ls[i].lstrip()) + rng.randint(1, len(ls[i].strip()) - 1)
                ls[i] = ls[i][:k] + rng.choice(BOUNDARIES) + ls[i][k:]
                if rng.random() < 0.5:
                    # no common indentation (what a google block or a docstring starting right after the quotes gives)
                    m = min(len(l) - len(l.lstrip()) for l in ls if l.strip())
                    ls = [l[m:] for l in ls]
                text = '\n'.join(ls)
        docs.append(text)
    return docs


NUM = re.compile(r'^\s*(\d+) (.*)$')


def same_line(actual, shown):
    """the displayed line is the file/docstring line, up to indentation and the display prefix the
    triple-quote hack inserts in front of unprefixed string-body lines"""
    a, b = actual.strip(), shown.strip()
    return a == b or (b.startswith('... ') and b[4:].strip() == a) or (b == '...' and a == '')


def shown_source(p, prefix):
    """the source lines of a part that its display holds.  With prompts: every line (orig_lines).  Without prompts the display is the
    part's source TEXT, and an empty LAST source line (the bare '...' / '>>>' that closes a block in front of the output) has no text
    of its own in it: the property asks for every line once and in order of the display WITH prompts, and for right numbers on
    whatever is displayed -- so that one empty line may be absent there, the numbers of all other lines are still checked"""
    lines = list(p.orig_lines if prefix else p.exec_lines)
    if not prefix and lines and lines[-1] == '':
        lines.pop()
    return lines


def check_doc(doc, lineno):
    """-> (requests for the model, impl texts, problems)"""
    from xdoctest import doctest_example, parser
    ex = doctest_example.DocTest(docsrc=doc, lineno=lineno)
    # explicit arguments win over whatever the example's configuration says (--offset, --colored, a tty ...)
    if (len(doc) + lineno) % 2:
        ex.config['offset_linenos'] = True
        ex.config['colored'] = True
        ex.config['verbose'] = 3
    with warnings.catch_warnings():
        warnings.simplefilter('ignore')
        ex._parse()
    parts = model_parts(ex)
    reqs, texts, problems = [], [], []
    norm_lines = None
    for prefix in (True, False):
        for want in (True, False):
            for mode in ('none', 'doctest', 'file'):
                linenos = mode != 'none'
                offset = mode == 'file'
                t = ex.format_src(linenos=linenos, colored=False, want=want, offset_linenos=offset, prefix=prefix)
                texts.append(t)
                reqs.append(('format_src', parts, linenos, want, offset, prefix, False, lineno))
                shown = t.split('\n')
                exp = []
                for p in ex._parts:
                    exp += shown_source(p, prefix)
                    if want and p.want:
                        exp += common.srclines(p.want)
                if mode == 'none':
                    if shown != exp:
                        problems.append('format_src(prefix=%s, want=%s) does not reproduce the parts line for line' % (prefix, want))
                else:
                    # every numbered line: the number is the position of that line
                    start = lineno if offset else 1
                    k = 0
                    for p in ex._parts:
                        src = shown_source(p, prefix)
                        for j, l in enumerate(src):
                            m = NUM.match(shown[k]) if k < len(shown) else None
                            if not m or m.group(2) != l:
                                problems.append('numbered line %d is %r, expected a number and %r' % (k, shown[k] if k < len(shown) else None, l))
                            elif int(m.group(1)) != start + p.line_offset + j:
                                problems.append('line %r is numbered %s, its position is %d' % (l, m.group(1), start + p.line_offset + j))
                            k += 1
                        if want and p.want:
                            k += len(common.srclines(p.want))
    # a display is a function of the doctest and the options given: an earlier display with an explicit numbering choice must not
    # decide what a later display WITHOUT that argument shows (it follows the configuration, which displaying does not change)
    cfg = bool(ex.config['offset_linenos'])
    base = ex.format_src(linenos=True, colored=False, want=True, prefix=True, offset_linenos=cfg)
    for explicit in (not cfg, cfg, not cfg):
        ex.format_src(linenos=True, colored=False, want=True, prefix=True, offset_linenos=explicit)
        t = ex.format_src(linenos=True, colored=False, want=True, prefix=True)
        if t != base:
            problems.append('after a display with an explicit offset_linenos=%r, the display without that argument no longer follows the configuration (offset_linenos=%r)' % (explicit, cfg))
            break
        if bool(ex.config['offset_linenos']) != cfg:
            problems.append('displaying the doctest changed its configuration: offset_linenos is %r, was %r' % (ex.config['offset_linenos'], cfg))
            break
    # numbers are positions in the doctest text itself
    dl = parser.DoctestParser()
    # re-parse of the displayed text
    shown = ex.format_src(linenos=False, colored=False, want=True, prefix=True)
    try:
        with warnings.catch_warnings():
            warnings.simplefilter('ignore')
            again = [p for p in parser.DoctestParser().parse(shown) if not isinstance(p, str)]
        a = [(list(p.exec_lines), list(p.want_lines or []), p.compile_mode) for p in again]
        b = [(list(p.exec_lines), list(p.want_lines or []), p.compile_mode) for p in ex._parts]
        # adjacent want-less parts may be merged by the re-parse: compare the flattened statement stream
        def flat(ps):
            out = []
            for e, w, m in ps:
                out += [('src', l) for l in e]
                out += [('want', l) for l in w]
                if w:
                    out.append(('mode', m))
            return out
        fa, fb = flat(a), flat(b)
        if fa != fb:
            diffs = [(x, y) for x, y in zip(fa, fb) if x != y]
            if len(fa) == len(fb) and all(x == ('mode', 'single') and y == ('mode', 'eval') for x, y in diffs) and ';' in doc:
                problems.append('KNOWN:F12')
            else:
                problems.append('re-parsing the displayed text gives different executable lines / wants / modes')
    except Exception as e:
        problems.append('displayed text does not parse again: %s' % type(e).__name__)
    # positions against the original docstring (doctest-relative numbers)
    src_lines = common.srclines(doc.expandtabs())
    for p in ex._parts:
        for j, l in enumerate(p.orig_lines):
            pos = p.line_offset + j
            if pos >= len(src_lines) or not same_line(src_lines[pos], l):
                problems.append('line_offset + %d = %d does not hold %r in the docstring' % (j, pos, l))
    return reqs, texts, problems


BOUNDARIES = ['\x0c', '\x0b', '\x1c', '\x1d', '\x1e', '\x85', '\u2028', '\u2029', '\r']


def _worker(job):
    docs, seed = job
    import random
    rng = random.Random(seed)
    out = []
    allreqs = []
    for d in docs:
        lineno = rng.choice([1, 7, 93, 998, 9999])
        try:
            reqs, texts, problems = check_doc(d, lineno)
        except Exception as e:
            if type(e).__name__ == 'DoctestParseError' and any(c in d for c in BOUNDARIES):
                # the injected line boundary cut a string literal in two: no doctest, nothing to display
                out.append([d, lineno, 0, [], ['UNPARSABLE']])
                continue
            raise
        allreqs += reqs
        out.append([d, lineno, len(reqs), texts, problems])
    ans = common.model_batch(allreqs)
    pos = 0
    for o in out:
        o.append(ans[pos:pos + o[2]])
        pos += o[2]
    return out


MODULE_TMPL = '''"""module"""


def before():
    pass


class Holder(object):

    def method(self):
        r"""
%s
        """


def func():
    r"""
%s
    """
'''


def file_relative(ctx):
    """doctests collected from real files: file-relative numbers must point at the text in the file"""
    from xdoctest import core
    rng = ctx.rng('files')
    tmp = tempfile.mkdtemp(prefix='xdverif_c18_')
    nv = 0
    try:
        for n in range(150 if ctx.tier == 'quick' else 3000):
            bodies = []
            for ind in (8, 4):
                stmts = gendoc.gen_program(rng, n=rng.randint(1, 4))
                text, _w = gendoc.render_layout(rng, stmts, google=rng.random() < 0.4, terminators=True)
                pre = []
                r = rng.random()
                if r < 0.35:
                    hdr = rng.choice(['Ignore:', 'Script:', 'DisableDoctest:', 'Benchmark:', 'SkipDoctest:'])
                    pre = ['Summary text.', '', hdr, '    >>> print("skipped block")', '    skipped block', '    >>> 1 + 1', '    2', '']
                elif r < 0.5:
                    pre = ['Leading prose.', 'More prose.', '']
                elif r < 0.7:
                    # the docstring opens with empty lines (1..3 of them after the line of the quotes) and has no summary text
                    pre = [''] * rng.randint(1, 3)
                    if text.startswith('Summary.\n\n'):
                        text = text[len('Summary.\n\n'):]          # a google docstring whose first text is the block label
                bodies.append('\n'.join(' ' * ind + l if l else l for l in (pre + text.split('\n'))))
            src = MODULE_TMPL % (bodies[0], bodies[1])
            path = os.path.join(tmp, 'xdverif_c18_m%d.py' % n)
            open(path, 'w').write(src)
            flines = src.split('\n')
            for style in ('freeform', 'google', 'auto'):
                with warnings.catch_warnings():
                    warnings.simplefilter('ignore')
                    so = sys.stdout
                    sys.stdout = open(os.devnull, 'w')
                    try:
                        exs = list(core.parse_doctestables(path, style=style, analysis='static'))
                    finally:
                        sys.stdout.close()
                        sys.stdout = so
                for ex in exs:
                    ctx.evaluations += 1
                    t = ex.format_src(linenos=True, colored=False, want=True, offset_linenos=True, prefix=True)
                    nwant = sum(len(common.srclines(p.want or '')) for p in ex._parts)
                    bad = None
                    nsrc = 0
                    for line in t.split('\n'):
                        m = NUM.match(line)
                        if not m:
                            continue
                        num, shown = int(m.group(1)), m.group(2)
                        if not shown.startswith(('>>>', '...')):
                            continue          # a want line that happens to start with digits
                        nsrc += 1
                        actual = flines[num - 1] if 0 < num <= len(flines) else None
                        if actual is None or not same_line(actual, shown):
                            bad = 'file-relative number %d shows %r but line %d of the file is %r' % (num, shown, num, actual)
                            break
                    if bad and nv < 4:
                        nv += 1
                        ctx.violation('file-numbers', {'what': bad, 'module_source': src, 'style': style, 'doctest': ex.unique_callname,
                                      'theorem_or_correspondence': 'C18_linenos_are_positions (file-relative) on core.parse_doctestables + format_src'}, True)
    finally:
        shutil.rmtree(tmp, ignore_errors=True)


# ---------------------------------------------------------------------------
# instances of the re-parse theorem (C18_reparse_sections_partial): docstrings made of prose and runs of well-formed examples
# (one indentation per run; an example that is followed by prose-then-examples has a want).  By construction the displayed text
# must be the examples' lines at indentation 0, and parsing it again must give the same parts up to the lines they start on
# ---------------------------------------------------------------------------
SEC_STATEMENTS = [
    (['x = 1'], None), (['y = [1,', '     2]'], None), (['print(x)'], ['1']), (['x'], ['1']),
    (['for i in range(2):', '    print(i)'], ['0', '1']), (['# a comment'], None), (['x = 1  # xdoctest: +SKIP'], None),
    (['@dec', 'def g():', '    pass'], None), (['f(', '  3)'], ['3']), (['z = (1 +', '     2)'], None), (['w = {', "  'k': 1}"], None),
    (['print("a b")  # xdoctest: +NORMALIZE_WHITESPACE'], ['a  b']), (['q = 2; q'], ['2']),
]
SEC_PROSE = ['Some prose here.', 'Args:', '    x (int): thing', 'Returns: int', 'Note - nothing.', 'See also the manual.']


def gen_sections_doc(rng):
    lines, shown = [], []
    nsec = rng.randint(1, 4)
    for si in range(nsec):
        last_sec = si == nsec - 1
        if si or rng.random() < 0.6:
            if si:
                lines.append('')            # prose after an example starts with a blank line
            for _k in range(rng.randint(0 if si else 1, 2)):
                lines.append(rng.choice(SEC_PROSE))
            if rng.random() < 0.6:
                lines.append('')
        ind = rng.choice([0, 4, 4, 8])
        style = rng.choice(['ps1', 'ps2', 'ps2'])
        nex = rng.randint(1, 3)
        for ei in range(nex):
            last_ex = ei == nex - 1
            nst = rng.randint(1, 3)
            want = None
            for k in range(nst):
                src, w = rng.choice(SEC_STATEMENTS)
                for j, l in enumerate(src):
                    pre = '>>> ' if (j == 0 or style == 'ps1') else '... '
                    lines.append(' ' * ind + pre + l)
                    shown.append(pre + l)
                if k == nst - 1:
                    want = w
            must_want = last_ex and not last_sec
            if want is None and must_want:
                lines.append(' ' * ind + '>>> print(x)')
                shown.append('>>> print(x)')
                want = ['1']
            if want is not None and (must_want or rng.random() < 0.7):
                for wl in want:
                    lines.append(' ' * ind + wl)
                    shown.append(wl)
    if rng.random() < 0.5:
        lines += ['', rng.choice(SEC_PROSE)]
    return '\n'.join(lines), shown


def check_sections_doc(doc, shown_expected):
    from xdoctest import doctest_example, parser
    problems = []
    with warnings.catch_warnings():
        warnings.simplefilter('ignore')
        ex = doctest_example.DocTest(docsrc=doc, lineno=1)
        ex._parse()
        shown = ex.format_src(linenos=False, colored=False, want=True, prefix=True)
        if shown.split('\n') != shown_expected:
            problems.append('the displayed text is not the examples\' lines at indentation 0: %r' % (shown[:300],))
        again = [p for p in parser.DoctestParser().parse(shown) if not isinstance(p, str)]

    def key(p):
        try:
            ds = [(d.name, d.positive, tuple(d.args), d.inline) for d in p.directives]
        except Exception as e:
            ds = 'raises ' + type(e).__name__
        return (list(p.exec_lines), list(p.orig_lines), list(p.want_lines or []), p.compile_mode, ds)
    a, b = [key(p) for p in again], [key(p) for p in ex._parts]
    if a != b:
        problems.append('parsing the displayed text again gives other parts: %d vs %d parts, first difference %r' % (
            len(a), len(b), next(((x, y) for x, y in zip(a, b) if x != y), None)))
    return problems


def run(ctx):
    # n_digits: float log10 vs integer
    ns = list(range(0, 20001)) + [99999, 100000, 100001]
    ans = common.model_batch([('n_digits_of', n) for n in ns])
    for n, a in zip(ns, ans):
        ctx.evaluations += 1
        r = int(math.ceil(math.log(max(1, n), 10)))
        if r != a:
            ctx.corr_failures.append(n)
            ctx.violation('n-digits', {'what': 'n_digits for endline %d: code %d, model %d' % (n, r, a),
                          'theorem_or_correspondence': 'correspondence n_digits_of'}, False)
            break
    docs = gen_docs(ctx)
    jobs = [(docs[i:i + 40], ctx.seed * 1000 + i) for i in range(0, len(docs), 40)]
    results = [r for ch in common.pmap(_worker, jobs) for r in ch]
    nv = {'c': 0, 'p': 0}
    for d, lineno, nreq, texts, problems, ans in results:
        if problems == ['UNPARSABLE']:
            ctx.count('injected-boundary:unparsable')
            continue
        if any(c in d for c in BOUNDARIES):
            ctx.count('injected-boundary:displayed')
        ctx.evaluations += nreq
        ctx.nontrivial += 1
        for t, a in zip(texts, ans):
            if t != a:
                ctx.corr_failures.append(d)
                if nv['c'] < 4:
                    nv['c'] += 1
                    ctx.violation('format-correspondence', {'what': 'format_src differs from the model', 'doctest': d, 'lineno': lineno,
                                  'impl': t[:1500], 'model': a[:1500] if isinstance(a, str) else repr(a),
                                  'theorem_or_correspondence': 'correspondence format_src (feeds C18_format_lines, C18_linenos)'}, bool(problems))
                break
        if 'KNOWN:F12' in problems:
            problems = [p for p in problems if p != 'KNOWN:F12']
            kf = {e['id']: e for e in common.load_known_findings('C18')}
            if 'F12' in kf:
                ctx.count('known:F12')
                ctx.known_finding('F12 %s; e.g. doctest=%r' % (kf['F12']['what'], kf['F12']['witness']['doctest']))
            else:
                problems.append('re-parsing the displayed text changes a compile mode from eval to single')
        if problems and nv['p'] < 5:
            nv['p'] += 1
            ctx.violation('display', {'what': '; '.join(problems)[:1200], 'doctest': d, 'lineno': lineno,
                          'theorem_or_correspondence': 'C18 predicates on DocTest.format_src'}, True)
    file_relative(ctx)
    # instances of the re-parse theorem
    rng = ctx.rng('sections')
    nsec = 0
    for _ in range(600 if ctx.tier == 'quick' else 12000):
        doc, shown = gen_sections_doc(rng)
        try:
            probs = check_sections_doc(doc, shown)
        except Exception as e:
            probs = ['%s: %s' % (type(e).__name__, str(e)[:200])]
        nsec += 1
        ctx.evaluations += 1
        if probs and len([v for v in ctx.violations if v['kind'] == 'reparse-instance']) < 4:
            ctx.violation('reparse-instance', {'what': '; '.join(probs)[:1200], 'doctest': doc, 'shown_expected': shown,
                          'theorem_or_correspondence': 'instance of C18_reparse_sections_partial on DoctestParser.parse / DocTest.format_src'}, True)
    ctx.count('reparse_theorem_instances', nsec)
    # the recorded witness of F12 is re-evaluated on the real code every run
    for e in common.load_known_findings('C18'):
        w = e['witness']['doctest']
        _r, _t, probs = check_doc(w, 1)
        if 'KNOWN:F12' in probs:
            ctx.known_finding('%s %s; e.g. doctest=%r' % (e['id'], e['what'], w))
        else:
            ctx.notes.append('known finding %s no longer reproduces on its witness' % e['id'])
    ctx.add_rule('doctests from the program generator (25 statement kinds incl. decorated defs, classes, multi-line literals with comments, triple-quoted strings with '
                 'unprefixed lines, semicolons, comments, async def/await/for/with; both prompt styles; indentation; wants; blank lines; prose; google header) x '
                 '{prompts on/off} x {wants on/off} x {no numbers, doctest-relative, file-relative}; n_digits for every endline <= 20000 and around 10^5; '
                 'doctests collected from generated module files (freeform/google/auto, also behind skipped blocks with wants) for file-relative numbers')
    ctx.sample({'doctest': docs[3]})
    ctx.sample({'doctest': docs[-1]})
    ctx.assumptions += ['colours (pygments) are outside the model; part numbers (partnos) are modelled but not exercised by the property',
                        'lines contain no line-break characters other than the separators (CleanPart)']


def replay(path):
    d = json.load(open(path))
    if d.get('kind') == 'reparse-instance':
        probs = check_sections_doc(d['doctest'], d['shown_expected'])
        print('doctest:\n%s\nproblems=%r' % (d['doctest'], probs))
        if probs:
            print('VIOLATION property=C18 replay=%s' % path)
            return 1
        return 0
    if 'doctest' in d and 'lineno' in d:
        reqs, texts, problems = check_doc(d['doctest'], d['lineno'])
        ans = common.model_batch(reqs)
        diff = [i for i, (t, a) in enumerate(zip(texts, ans)) if t != a]
        print('problems=%r\nmodel disagreements at option sets %r' % (problems, diff))
        if problems or diff:
            print('VIOLATION property=C18 replay=%s' % path)
            return 1
        return 0
    print(json.dumps(d, indent=1)[:2500])
    print('VIOLATION property=C18 replay=%s' % path)
    return 1
