"""C04 — Directive scoping: block persists, inline is local, skipped code never runs.

Theorems: Props/C04.v (RuntimeState.update refines the abstract scoping machine for every sequence of
directive lists; inline leaves the persistent state untouched; defaults = leading block directive;
skipped statements have no effect).
Correspondence: (1) RuntimeState unit level: every sequence of <=3 (quick) / 4 updates over an 18-symbol
directive alphabet: to_dict(), skip test and raised class after every update vs the extracted model;
(2) the same histories rendered as real doctests (five statement shapes, wants, decoy directive text inside
string literals, default_runtime_state) run through DocTest.run and the run-loop model.
Search (model independent): executed TRACE must equal the abstract machine's prediction (python transcription
of Spec/Scoping.v), skipped wants must not be compared, the persistent state must be untouched by inline directives.
"""
import itertools
import json
import warnings

from harness import common, gendoc, runmodel, parsemodel
from harness.common import Sym

MET, UA, UB = 'module:os', '--xdverif-unmet-a', 'module:xdverif_no_such_module_b'
# a missing module below a package that exists, below a module that is compiled into the interpreter, below a plain module
UC, UD, UE = 'module:sys.xdverif_no_such_part', 'module:os.xdverif_no_such_part', 'module:time.nope.deeper'
# module names are case sensitive: a met condition whose name holds capitals, an unmet one that differs from a real module by case only
MCAP, UCAP = 'module:xml.etree.ElementTree', 'module:OS'
DIRS = [('SKIP', True, None), ('SKIP', False, None),
        ('REQUIRES', True, MET), ('REQUIRES', False, MET),
        ('REQUIRES', True, UA), ('REQUIRES', False, UA),
        ('REQUIRES', True, UB), ('REQUIRES', False, UB),
        ('IGNORE_WANT', True, None)]
# options that have no part in deciding what runs
BYSTANDERS = [('REPORT_NDIFF', False, None), ('REPORT_UDIFF', True, None), ('REPORT_CDIFF', False, None), ('REPORT_NDIFF', True, None),
              ('ELLIPSIS', False, None), ('NORMALIZE_WHITESPACE', True, None), ('IGNORE_WHITESPACE', True, None), ('REPORT_ONLY_FIRST_FAILURE', False, None)]
# one directive listing several conditions (met ones before, between and after unmet ones)
MULTI_DIRS = [('REQUIRES', sign, ', '.join(args)) for sign in (True, False)
              for args in ((MET, UA), (UA, MET), (MET, UA, UB), (UA, MET, UB), (UB, UA), (MET, MET, UB), ('module:sys', UA), ('module:time',), ('module:itertools', 'module:sys'),
                           (UC,), (MET, UD), (UE,), ('module:sys', UC), (MCAP,), (MCAP, UA), (UCAP,), (MET, UCAP), (MCAP, 'module:json'))]
PRELUDE = gendoc.PRELUDE + '''
def tr(k):
    def deco(f):
        TRACE.append(k)
        return f
    return deco
'''


def dir_text(d):
    name, pos, arg = d
    s = ('+' if pos else '-') + name
    if arg is not None:
        s += '(%s)' % arg
    return s


# ---- python transcription of Spec/Scoping.v ---------------------------------
# conditions that hold in the harness process: a module with a file, modules compiled into the interpreter (no file)
MET_SET = {MET, 'module:sys', 'module:time', 'module:itertools', MCAP, 'module:json'}


def met(arg):
    return arg in MET_SET


def a_apply(state, d):
    skip, pend = state
    name, pos, arg = d
    if name == 'SKIP':
        return (pos, pend)
    if name == 'REQUIRES':
        # several comma-separated conditions in one directive: each of them on its own, in any order
        pend = list(pend)
        for a in [x.strip() for x in arg.split(',')]:
            if met(a):
                continue
            if pos:
                if a not in pend:
                    pend.append(a)
            elif a in pend:
                pend.remove(a)
        return (skip, tuple(pend))
    return state


def a_runs(state):
    return (not state[0]) and not state[1]


def spec_trace(events, start=(False, ())):
    """events: list of ('block', [dirs]) | ('stmt', [inline dirs], k).  Returns the ks that run."""
    st = start
    out = []
    for ev in events:
        if ev[0] == 'block':
            for d in ev[1]:
                st = a_apply(st, d)
        else:
            eff = st
            for d in ev[1]:
                eff = a_apply(eff, d)
            if a_runs(eff):
                out.append(ev[2])
    return out


# ---- rendering --------------------------------------------------------------
SHAPES = ['one', 'multi', 'compound', 'decorated', 'want', 'string', 'decoclass', 'decoclass1', 'decorated1', 'asyncdef',
          'compound_comment', 'multi_comment', 'compound_comment_last', 'multi_blank', 'triple_blank', 'compound_blank', 'string_escape', 'string_escape2']


# every spelling of the marker that the directive pattern accepts (it is matched case-insensitively)
MARKERS = ['xdoctest', 'xdoctest', 'xdoctest', 'xdoc', 'doctest', 'XDOCTEST', 'XDoctest', 'DOCTEST', 'XDOC', 'Xdoc', 'DocTest']


def marker(k, dirs):
    return MARKERS[(k * 7 + len(dirs) + sum(len(dir_text(d)) for d in dirs)) % len(MARKERS)]


def render_stmt(shape, k, dirs):
    """returns (lines, want_lines); the inline directive comment goes on the first or last line"""
    c = ('  # %s: ' % marker(k, dirs) + ', '.join(dir_text(d) for d in dirs)) if dirs else ''
    if shape == 'one':
        return ['>>> v%d = t(%d)%s' % (k, k, c)], []
    if shape == 'multi':
        return ['>>> w%d = [t(%d),' % (k, k), '...       0]%s' % c], []
    if shape == 'compound':
        return ['>>> if True:%s' % c, '...     z%d = t(%d)' % (k, k)], []
    if shape == 'compound_comment':       # a comment-only line inside the statement that carries the inline directive
        return ['>>> for i%d in range(1):%s' % (k, c), '...     # an explanatory comment', '...     z%d = t(%d)' % (k, k)], []
    if shape == 'multi_comment':
        return ['>>> w%d = [t(%d),%s' % (k, k, c), '...       # about the second element', '...       0]'], []
    if shape == 'compound_comment_last':
        return ['>>> if True:', '...     # a comment line first', '...     z%d = t(%d)%s' % (k, k, c)], []
    if shape == 'multi_blank':            # an empty continuation line inside the statement, the directive behind it
        return ['>>> w%d = [t(%d),' % (k, k), '...', '...       0]%s' % c], []
    if shape == 'triple_blank':
        return ['>>> s%d = t(%d) and """a' % (k, k), '...', '... b"""%s' % c], []
    if shape == 'compound_blank':
        return ['>>> if True:', '...     z%d = t(%d)' % (k, k), '...', '...     y%d = 0%s' % (k, c)], []
    if shape == 'decorated':
        return ['>>> @tr(%d)%s' % (k, c), '... def f%d():' % k, '...     pass'], []
    if shape == 'decoclass':
        return ['>>> @tr(%d)%s' % (k, c), '... class C%d:' % k, '...     pass'], []
    if shape == 'decoclass1':      # every line with the primary prompt
        return ['>>> @tr(%d)%s' % (k, c), '>>> class C%d:' % k, '>>>     pass'], []
    if shape == 'decorated1':
        return ['>>> @tr(%d)' % k, '>>> def g%d():%s' % (k, c), '>>>     pass'], []
    if shape == 'asyncdef':
        return ['>>> @tr(%d)%s' % (k, c), '... async def h%d():' % k, '...     pass'], []
    if shape == 'want':
        return [">>> print('o%d', t(%d))%s" % (k, k, c)], ['o%d %d' % (k, k)]
    if shape == 'string_escape':
        # a double-quoted literal with a backslash escape, an apostrophe behind it and directive-looking text: still a string
        return ['>>> s%d = ["tab\\there don\'t # xdoctest: +SKIP", t(%d)]%s' % (k, k, c)], []
    if shape == 'string_escape2':
        return ['>>> s%d = ["C:\\\\dir isn\'t # doctest: +SKIP, +REQUIRES(--never)", t(%d)]%s' % (k, k, c)], []
    if shape == 'string':
        # directive-looking text inside string literals is not a directive
        return [">>> s%d = ['# xdoctest: +SKIP', t(%d)]%s" % (k, k, c),
                '>>> q%d = """' % k, '... # xdoctest: +SKIP', '... """'], []
    raise KeyError(shape)


def render(events, shapes, bare=False, spacing=0):
    """bare: every run of source lines opens with an empty prompt line (a bare '>>>' used as spacing);
    spacing: that many empty prompt lines behind every block directive (it is a block directive all the same)"""
    lines = ['>>>'] if bare else []
    j = 0
    for n, ev in enumerate(events):
        if ev[0] == 'block':
            lines.append('>>> # %s: ' % marker(n, ev[1]) + ', '.join(dir_text(d) for d in ev[1]))
            lines += ['>>>'] * spacing
        else:
            src, want = render_stmt(shapes[j % len(shapes)], ev[2], ev[1])
            j += 1
            lines += src + want
            if bare and want and n + 1 < len(events):
                lines.append('>>>')
    return '\n'.join(lines)


def gen_events(ctx):
    quick = ctx.tier == 'quick'
    syms = [('block', d) for d in DIRS] + [('inline', d) for d in DIRS]
    out = []
    maxlen = 2 if quick else 3
    # every directive sequence of length <= maxlen, each followed/carried by statements so that
    # the state after every event is observable
    for n in range(1, maxlen + 1):
        for seq in itertools.product(syms, repeat=n):
            events = []
            k = 10
            for kind, d in seq:
                if kind == 'block':
                    events.append(('block', [d]))
                    events.append(('stmt', [], k))
                else:
                    events.append(('stmt', [d], k))
                    k += 1
                    events.append(('stmt', [], k))
                k += 1
            out.append(events)
    rng = ctx.rng('histories')
    for _ in range(600 if quick else 12000):
        n = rng.randint(3, 9)
        events = []
        k = 10
        for _j in range(n):
            r = rng.random()
            if r < 0.3:
                events.append(('block', [rng.choice(DIRS) for _ in range(rng.choice([1, 1, 2]))]))
            elif r < 0.6:
                events.append(('stmt', [rng.choice(DIRS) for _ in range(rng.choice([1, 1, 2]))], k))
                k += 1
            else:
                events.append(('stmt', [], k))
                k += 1
        if not any(e[0] == 'stmt' for e in events):
            events.append(('stmt', [], k))
        out.append(events)
    return out


def _worker(job):
    cases = job
    try:
        res = runmodel.run_both_many([dict(doc=c['doc'], prelude=PRELUDE, default_state=c.get('default')) for c in cases])
    except Exception:      # noqa
        # one of the (well formed) doctests cannot even be parsed: find it and report it as the failing input
        res = []
        for c in cases:
            try:
                res += runmodel.run_both_many([dict(doc=c['doc'], prelude=PRELUDE, default_state=c.get('default'))])
            except Exception as e:      # noqa
                res.append(({'end': 'not parsed: %s: %s' % (type(e).__name__, str(e)[:120]), 'failed': None, 'trace': None, 'failure': None, 'failed_part': None}, None, [], None))
    out = []
    for c, (impl, model, df, ex) in zip(cases, res):
        problem = None
        if impl['end'] != 'summary':
            problem = 'run did not return a summary: %s' % impl['end']
        elif impl['failed']:
            problem = 'doctest failed (%s at part %s); directives must only skip statements' % (impl['failure'], impl['failed_part'])
        elif impl['trace'] != c['expect']:
            problem = 'executed statements %r, the scoping rules give %r' % (impl['trace'], c['expect'])
        out.append((impl, model, df, problem))
    return out


def _hist_worker(job):
    """histories: the doctests of one run share one options dict, as xdoctest.runner hands config['default_runtime_state'] to
    every example; each doctest starts from the default options, whatever an earlier one did with block directives"""
    out = []
    for h in job:
        shared = dict(h['default'])
        problem = None
        for i, (doc, expect) in enumerate(h['docs']):
            impl, ex, rec = runmodel.run_impl(doc, prelude=PRELUDE, shared_default=shared)
            if impl['end'] != 'summary' or impl['failed']:
                problem = 'doctest %d of the history did not pass: %s %s' % (i, impl['end'], impl['failure'])
            elif impl['trace'] != expect:
                problem = 'doctest %d of the history executed %r, the scoping rules from the default options give %r' % (i, impl['trace'], expect)
            elif shared != h['default']:
                problem = 'doctest %d changed the default options shared by the run: %r' % (i, shared)
            if problem:
                break
        out.append(problem)
    return out


def unit_level(ctx):
    """RuntimeState.update sequences vs the model (to_dict, skip test, error class)"""
    from xdoctest import directive
    quick = ctx.tier == 'quick'
    syms = [(d, inl) for d in DIRS for inl in (False, True)] + [(('ELLIPSIS', False, None), True), (('REPORT_NDIFF', False, None), False)]
    seqs = [s for n in range(1, (3 if quick else 4) + 1) for s in itertools.product(range(len(syms)), repeat=n)]
    rng = ctx.rng('unit')
    if quick:
        seqs += [tuple(rng.randrange(len(syms)) for _ in range(rng.randint(4, 7))) for _ in range(4000)]
    reqtab = [[MET, True], [UA, False], [UB, False]]
    reqs = []
    impls = []
    # a plan = list of updates, an update = list of directives (name, positive, args, inline)
    plans = [[[(syms[i][0][0], syms[i][0][1], [syms[i][0][2]] if syms[i][0][2] is not None else [], syms[i][1])] for i in seq] for seq in seqs]
    # several directives per update, REQUIRES with several arguments (met and unmet mixed, repeated)
    for _ in range(2500 if quick else 40000):
        plan = []
        for _u in range(rng.randint(1, 5)):
            up = []
            for _d in range(rng.randint(1, 4)):
                (name, pos, arg), inl = syms[rng.randrange(len(syms))]
                args = [] if arg is None else [rng.choice([MET, UA, UB]) for _a in range(rng.randint(1, 3))]
                up.append((name, pos, args, inl))
            plan.append(up)
        plans.append(plan)
    for plan in plans:
        ups = []
        rs = directive.RuntimeState()
        trace = []
        for up in plan:
            dobjs = [directive.Directive(name, pos, list(args), inline=inl) for name, pos, args, inl in up]
            ups.append([[name, pos, list(args), inl] for name, pos, args, inl in up])
            if trace and trace[-1][0] != 'ok':
                continue
            g_before = repr(sorted(rs._global_state.items(), key=lambda kv: kv[0]))
            try:
                rs.update(dobjs)
                d = rs.to_dict()
                skips = bool(rs['SKIP'] or len(rs['REQUIRES']) > 0)
                trace.append(('ok', {k: (sorted(v) if isinstance(v, set) else v) for k, v in d.items()}, skips,
                              {k: (sorted(v) if isinstance(v, set) else v) for k, v in rs._global_state.items()}))
                g_after = repr(sorted(rs._global_state.items(), key=lambda kv: kv[0]))
                if all(inl and not name.startswith('REPORT_') for name, pos, args, inl in up) and g_before != g_after:
                    ctx.violation('inline-changed-persistent', {
                        'what': 'an inline directive changed the persistent runtime state',
                        'updates': [[list(x) for x in u] for u in plan], 'before': g_before, 'after': g_after,
                        'theorem_or_correspondence': 'C04_inline_leaves_persistent on RuntimeState'}, True)
            except Exception as ex:
                trace.append((type(ex).__name__.lower(),))
        impls.append(trace)
        reqs.append(('rs_trace', [], Sym('none'), reqtab, ups))
    answers = []
    for i in range(0, len(reqs), 4000):
        answers += common.model_batch(reqs[i:i + 4000])
    nt = 0
    for seq, tr, ans in zip(plans, impls, answers):
        ctx.evaluations += 1
        mt = []
        for a in ans:
            if isinstance(a, list) and a and a[0] == Sym('ok'):
                dd = {k: (sorted(v[1:]) if isinstance(v, list) else v) for k, v in a[1]}
                gg = {k: (sorted(v[1:]) if isinstance(v, list) else v) for k, v in a[3]}
                mt.append(('ok', dd, a[2], gg))
            else:
                mt.append((str(a),))
        if any(t[0] == 'ok' and t[2] for t in tr):
            nt += 1
        if mt != tr:
            ctx.corr_failures.append(seq)
            if len([v for v in ctx.violations if v['kind'] == 'runtime-state-correspondence']) < 3:
                ctx.violation('runtime-state-correspondence', {
                    'what': 'RuntimeState.update differs from the model', 'updates': [[list(x) for x in u] for u in seq],
                    'impl': repr(tr), 'model': repr(mt),
                    'theorem_or_correspondence': 'correspondence RuntimeState.update (feeds C04_scoping)'}, False)
    ctx.nontrivial += nt
    ctx.count('unit:update_sequences', len(plans))
    ctx.count('unit:sequences_that_skip', nt)


def check_known_classes(ctx):
    """recorded defects of the unchanged tree, re-evaluated on the real code every run"""
    import contextlib, io
    from xdoctest import doctest_example
    for e in common.load_known_findings('C04'):
        doc = e['witness']['doctest']
        ctx.evaluations += 1
        try:
            with contextlib.redirect_stdout(io.StringIO()):
                s = doctest_example.DocTest(docsrc=doc, lineno=1).run(on_error='return', verbose=0)
            still = not s['passed']
            outcome = 'passed' if s['passed'] else ('skipped' if s['skipped'] else 'failed')
        except BaseException as ex:      # noqa  (an all-skipped doctest ends in pytest's Skipped)
            still = True
            outcome = type(ex).__name__
        if still:
            ctx.known_finding('%s %s; e.g. doctest=%r (%s)' % (e['id'], e['what'], doc, outcome))
        else:
            ctx.notes.append('recorded finding %s no longer reproduces: %s' % (e['id'], outcome))



# ---- which directives are block and which inline: Directive.extract's classification vs Model/DirInline.v -------------------
INLINE_LINES = ['', '   ', '\t', '\xa0 ', '# a remark', '  # xdoctest: +SKIP', '# doctest: +ELLIPSIS', '#', 'v = 1', 'w = [1,', '      2]',
                "s = '# xdoctest: +SKIP'", 'v = 2  # xdoctest: +IGNORE_WANT', '# split \x0c here', '# nel \x85 x', '# xdoc: -SKIP  ', '\x0c',
                'if v:', '    pass  # a trailing remark']


def inline_texts(ctx):
    quick = ctx.tier == 'quick'
    out = []
    n = 3 if quick else 4
    for k in range(1, n + 1):
        for ls in itertools.product(range(len(INLINE_LINES)), repeat=k):
            t = '\n'.join(INLINE_LINES[i] for i in ls)
            if 'xdoc' in t or 'doctest:' in t:
                out.append(t)
    rng = ctx.rng('inline-texts')
    for _ in range(3000 if quick else 40000):
        ls = [rng.choice(INLINE_LINES) for _ in range(rng.randint(4, 9))]
        t = rng.choice(['\n', '\n', '\r\n']).join(ls) + rng.choice(['', '\n', '\n\n'])
        if 'xdoc' in t or 'doctest:' in t:
            out.append(t)
    return out


def spec_inline(text):
    """inline iff some line of the statement is neither empty nor a comment"""
    return any(l.strip() and not l.strip().startswith('#') for l in text.splitlines())


def _inline_worker(texts):
    from xdoctest import directive
    ans = common.model_batch([('extract_inline', t) for t in texts])
    out = []
    for t, m in zip(texts, ans):
        try:
            with warnings.catch_warnings():
                warnings.simplefilter('ignore')
                flags = sorted(set(bool(d.inline) for d in directive.Directive.extract(t)))
        except Exception as e:      # noqa  (the tokenizer rejects the text: nothing is classified)
            flags = 'raised %s' % type(e).__name__
        out.append((flags, bool(m)))
    return out


def inline_classification(ctx):
    texts = inline_texts(ctx)
    chunks = [texts[i:i + 2000] for i in range(0, len(texts), 2000)]
    res = [r for ch in common.pmap(_inline_worker, chunks) for r in ch]
    nv = 0
    seen = {'block': 0, 'inline': 0, 'no-directive-found': 0, 'raised': 0}
    for t, (flags, m) in zip(texts, res):
        ctx.evaluations += 1
        want = spec_inline(t)
        if isinstance(flags, str):
            seen['raised'] += 1
            continue
        if not flags:
            seen['no-directive-found'] += 1
            impl_ok = True
        else:
            seen['inline' if flags == [True] else 'block'] += 1
            impl_ok = flags == [want]
        if (not impl_ok or m != want) and nv < 5:
            nv += 1
            ctx.violation('inline-classification', {
                'what': 'Directive.extract classifies the directives of this statement as inline=%r, the model as %r; by the rule '
                        '(inline iff a line that is neither empty nor a comment) it is %r' % (flags, m, want),
                'statement_text': t, 'impl_inline_flags': flags, 'model_inline': m, 'rule_inline': want,
                'theorem_or_correspondence': 'C04_inline_iff_code / Model.DirInline.extract_inline vs Directive.extract'}, not impl_ok)
    for k, v in seen.items():
        ctx.count('inline_texts_' + k, v)
    if seen['raised'] * 10 > len(texts) or not seen['block'] or not seen['inline']:
        raise RuntimeError('the inline-classification stratum is vacuous: %r' % seen)      # a defect of this harness: no verdict
    ctx.add_rule('Directive.extract on every statement text of <=%d lines over %d line forms (code, comments, directive comments, empty and blank '
                 'lines, form feeds and NEL inside comments, directive-looking strings) that holds a directive marker, plus random longer ones with '
                 'LF/CRLF line ends and trailing empty lines: the inline flag of every directive found = Model.DirInline.extract_inline = the rule'
                 % (3 if ctx.tier == 'quick' else 4, len(INLINE_LINES)))


def run(ctx):
    check_known_classes(ctx)
    unit_level(ctx)
    inline_classification(ctx)
    cases = []
    for idx, events in enumerate(gen_events(ctx)):
        shapes = SHAPES[idx % len(SHAPES):] + SHAPES[:idx % len(SHAPES)]
        cases.append(dict(doc=render(events, shapes, bare=(idx % 5 == 2)), expect=spec_trace(events), events=events))
        if idx % 4 == 1 and any(e[0] == 'block' for e in events):
            cases.append(dict(doc=render(events, shapes, bare=(idx % 8 == 1), spacing=1 + idx % 3), expect=spec_trace(events), events=events))
    # default options behave like a leading block directive
    rng = ctx.rng('defaults')
    for _ in range(150 if ctx.tier == 'quick' else 2000):
        events = [('stmt', [], 10), ('stmt', [rng.choice(DIRS)], 11), ('stmt', [], 12), ('block', [rng.choice(DIRS)]), ('stmt', [], 13)]
        dflt = rng.choice([{'SKIP': True}, {'SKIP': False}, {'IGNORE_WANT': True}])
        start = (bool(dflt.get('SKIP', False)), ())
        cases.append(dict(doc=render(events, SHAPES), expect=spec_trace(events, start), events=events, default=dflt))
    # ... as the command line gives them: '--options=+SKIP,+IGNORE_WHITESPACE' is a LIST; the default options of a run are what
    # DoctestConfig._populate_from_cli makes of the text (every option of the list, in any order and spelling)
    from xdoctest import doctest_example
    NS = {'offset_linenos': False, 'colored': False, 'reportchoice': 'udiff', 'global_exec': None, 'supress_import_errors': False, 'verbose': 0}
    names = ['SKIP', 'IGNORE_WANT', 'IGNORE_WHITESPACE', 'ELLIPSIS', 'NORMALIZE_WHITESPACE']
    nopt = 0
    for n in (1, 2, 3):
        for combo in itertools.permutations(names, n):
            if ctx.tier == 'quick' and n == 3 and rng.random() < 0.7:
                continue
            want = {k: bool((i + len(combo) + len(k)) % 2) if k != 'SKIP' else (i + n) % 2 == 0 for i, k in enumerate(combo)}
            text = rng.choice([',', ', ', ' , ']).join(('+' if want[k] else '-') + k for k in combo)
            ctx.evaluations += 1
            nopt += 1
            try:
                got = doctest_example.DoctestConfig()._populate_from_cli(dict(NS, options=text))['default_runtime_state']
            except Exception as e:      # noqa
                got = 'raised %s' % type(e).__name__
            if got != want:
                ctx.violation('cli-defaults', {'what': '--options=%r gives the default options %r, the list says %r' % (text, got, want), 'options_text': text,
                                               'expected_default_runtime_state': want, 'theorem_or_correspondence': 'C04_defaults_as_leading_block: the defaults of a run are the options given'}, True)
                break
            if n <= 2:
                events = [('stmt', [], 10), ('stmt', [('SKIP', False, None)], 11), ('stmt', [], 12)]
                start = (bool(want.get('SKIP', False)), ())
                cases.append(dict(doc=render(events, SHAPES), expect=spec_trace(events, start), events=events, default=dict(got)))
    ctx.count('cli_option_lists', nopt)
    # the same against Model/CliOptions.v, also for lists that mention a name twice (the last mention counts, the entry keeps its place)
    lists = []
    for _ in range(400 if ctx.tier == 'quick' else 6000):
        lists.append([(rng.choice(names), rng.random() < 0.5) for _k in range(rng.randint(0, 6))])
    ans = common.model_batch([('populate_from_cli', [[k, b] for k, b in ol]) for ol in lists])
    for ol, m in zip(lists, ans):
        ctx.evaluations += 1
        text = ','.join(('+' if b else '-') + k for k, b in ol)
        try:
            got = list(doctest_example.DoctestConfig()._populate_from_cli(dict(NS, options=text))['default_runtime_state'].items())
        except Exception as e:      # noqa
            got = 'raised %s' % type(e).__name__
        rule = {}
        for k, b in ol:
            rule[k] = b
        mm = [(k, bool(v)) for k, v in m] if isinstance(m, list) else m
        if got != mm or got != list(rule.items()):
            ctx.violation('cli-defaults', {'what': '--options=%r gives %r, the model %r, the list read left to right %r' % (text, got, mm, list(rule.items())), 'options_text': text,
                                           'theorem_or_correspondence': 'C04_cli_defaults_last_mention / Model.CliOptions.populate_from_cli vs DoctestConfig._populate_from_cli'},
                          got != list(rule.items()))
            break
    ctx.count('cli_option_lists_vs_model', len(lists))
    # "a skipped statement has no effect at all": also not on what a later want is compared with.  Output printed before a
    # skipped statement (with or without a want of its own) still belongs to the next executed want
    for skipdir in ('+SKIP', '+REQUIRES(%s)' % UA, '+REQUIRES(%s)' % UB):
        for skipped_has_want in (False, True):
            for block in (False, True):
                lines = [">>> print('early', t(10))"]
                if block:
                    lines += ['>>> # xdoctest: %s' % skipdir, ">>> print('skipped', t(11))"]
                else:
                    lines += [">>> print('skipped', t(11))  # xdoctest: %s" % skipdir]
                if skipped_has_want:
                    lines += ['whatever the skipped statement would print']
                if block:
                    lines += ['>>> # xdoctest: %s' % skipdir.replace('+', '-', 1)]
                lines += [">>> print('late', t(12))", 'early 10', 'late 12']
                cases.append(dict(doc='\n'.join(lines), expect=[10, 12], events=[('stmt', [], 10), ('stmt', [], 12)]))
    # directives that list several conditions
    rng = ctx.rng('multi')
    for _ in range(150 if ctx.tier == 'quick' else 2500):
        events = [('stmt', [], 40)]
        for q in range(rng.randint(1, 4)):
            if rng.random() < 0.6:
                events.append(('block', [rng.choice(MULTI_DIRS + DIRS[2:8])]))
            events.append(('stmt', [rng.choice(MULTI_DIRS)] if rng.random() < 0.35 else [], 41 + q))
        cases.append(dict(doc=render(events, SHAPES[:3] + ['want']), expect=spec_trace(events), events=events))
    # a directive comment that also lists options which have nothing to do with skipping (report style, comparison leniencies),
    # before or after the skipping ones: they change nothing about which statements run
    rng = ctx.rng('bystanders')
    for _ in range(150 if ctx.tier == 'quick' else 2500):
        events = [('stmt', [], 60)]
        for q in range(rng.randint(2, 4)):
            if rng.random() < 0.4:
                ds = [rng.choice(DIRS), rng.choice(BYSTANDERS)]
                rng.shuffle(ds)
                events.append(('block', ds))
            ds = ([rng.choice(DIRS)] if rng.random() < 0.7 else []) + [rng.choice(BYSTANDERS)]
            rng.shuffle(ds)
            events.append(('stmt', ds if rng.random() < 0.6 else [], 61 + q))
        events.append(('stmt', [], 69))
        cases.append(dict(doc=render(events, SHAPES[:3] + ['want']), expect=spec_trace(events), events=events))
    # histories over one shared options dict (quantifier: histories x configurations)
    hists = []
    rng = ctx.rng('histories')
    for _ in range(120 if ctx.tier == 'quick' else 1500):
        dflt = rng.choice([{'SKIP': True}, {'SKIP': False}, {'IGNORE_WANT': True}, {'ELLIPSIS': False}])   # booleans: what --options can produce (BoolDefaults)
        start = (bool(dflt.get('SKIP', False)), ())
        docs = []
        for j in range(rng.randint(2, 3)):
            events = [('stmt', [], 20 + 10 * j)]
            for q in range(rng.randint(1, 3)):
                events.append(('block', [rng.choice(DIRS)]))
                events.append(('stmt', [rng.choice(DIRS)] if rng.random() < 0.3 else [], 21 + 10 * j + q))
            docs.append((render(events, SHAPES), spec_trace(events, start)))
        hists.append(dict(default=dflt, docs=docs))
    hres = [r for ch in common.pmap(_hist_worker, [hists[i:i + 40] for i in range(0, len(hists), 40)]) for r in ch]
    for h, problem in zip(hists, hres):
        ctx.evaluations += 1
        ctx.count('history:shared-options')
        if problem and len([v for v in ctx.violations if v['kind'] == 'history-scoping']) < 3:
            ctx.violation('history-scoping', {'what': problem, 'history': [[d, e] for d, e in h['docs']],
                          'default_runtime_state': {k: (sorted(v) if isinstance(v, set) else v) for k, v in h['default'].items()},
                          'theorem_or_correspondence': 'C04_defaults_as_leading_block + run_trace_independent_of_history on DocTest.run'}, True)
    chunks = [cases[i:i + 150] for i in range(0, len(cases), 150)]
    results = [r for ch in common.pmap(_worker, chunks) for r in ch]
    seen = set()
    for c, (impl, model, df, problem) in zip(cases, results):
        ctx.evaluations += 1
        n_run = len(c['expect'])
        n_all = sum(1 for e in c['events'] if e[0] == 'stmt')
        ctx.count('doctest:%s' % ('all-run' if n_run == n_all else 'none-run' if n_run == 0 else 'some-skipped'))
        if c['doc'] not in seen:
            seen.add(c['doc'])
            if 0 < n_run < n_all:
                ctx.nontrivial += 1
        if problem and len([v for v in ctx.violations if v['kind'] == 'scoping']) < 5:
            ctx.violation('scoping', {'what': problem, 'doctest': c['doc'], 'expected_trace': c['expect'],
                          'default_runtime_state': c.get('default'), 'impl': impl,
                          'theorem_or_correspondence': 'spec_executed (Spec/Scoping.v) on DocTest.run'}, True)
        if df:
            ctx.corr_failures.append(c['doc'])
            if len([v for v in ctx.violations if v['kind'] == 'run-correspondence']) < 5:
                ctx.violation('run-correspondence', {
                    'what': 'DocTest.run differs from the run-loop model on: ' + ', '.join(k for k, _, _ in df),
                    'doctest': c['doc'], 'default_runtime_state': c.get('default'), 'expected_trace': c['expect'],
                    'diff': [[k, repr(a), repr(b)] for k, a, b in df],
                    'theorem_or_correspondence': 'correspondence run (feeds C04_scoping, C04_skipped_no_effect)'}, bool(problem))
    ctx.add_rule('RuntimeState: every update sequence of <=%d over 20 directive symbols (block/inline x +-SKIP, +-REQUIRES(met/unmet a/unmet b), '
                 'IGNORE_WANT, inline -ELLIPSIS, block -REPORT_NDIFF); doctests: every directive sequence of <=%d rendered with statements '
                 'in 10 shapes + seeded histories of 3..9 events + default_runtime_state cases; non-trivial = some but not all statements skipped'
                 % (3 if ctx.tier == 'quick' else 4, 2 if ctx.tier == 'quick' else 3))
    ctx.sample({'doctest': cases[400]['doc'], 'expected_trace': cases[400]['expect']})
    ctx.sample({'doctest': cases[-200]['doc'], 'expected_trace': cases[-200]['expect']})
    ctx.assumptions += ['REQUIRES conditions: module:os is met, --xdverif-unmet-a and module:xdverif_no_such_module_b are unmet in the harness process',
                        'comments are what CPython\'s tokenizer calls comments (directive text in string literals is exercised as decoys)']


def replay(path):
    d = json.load(open(path))
    if 'history' in d:
        dflt = {k: (set(v) if isinstance(v, list) else v) for k, v in d['default_runtime_state'].items()}
        problem = _hist_worker([dict(default=dflt, docs=[(a, b) for a, b in d['history']])])[0]
        print('history of %d doctests, default options %r\nproblem=%r' % (len(d['history']), dflt, problem))
        if problem:
            print('VIOLATION property=C04 replay=%s' % path)
            return 1
        return 0
    if 'statement_text' in d:
        flags, m = _inline_worker([d['statement_text']])[0]
        want = spec_inline(d['statement_text'])
        print('statement text %r\nimpl inline flags=%r model=%r rule=%r' % (d['statement_text'], flags, m, want))
        if (not isinstance(flags, str) and flags and flags != [want]) or m != want:
            print('VIOLATION property=C04 replay=%s' % path)
            return 1
        return 0
    if 'doctest' not in d:
        print(json.dumps(d, indent=1)[:2000])
        print('VIOLATION property=C04 replay=%s' % path)
        return 1
    c = dict(doc=d['doctest'], expect=d.get('expected_trace'), default=d.get('default_runtime_state'))
    impl, model, df, problem = _worker([c])[0]
    print('doctest:\n%s\nimpl=%r\nmodel=%r\ndiff=%r\nproblem=%r' % (d['doctest'], impl, model, df, problem))
    if df or problem:
        print('VIOLATION property=C04 replay=%s' % path)
        return 1
    return 0
