"""C17 — Module name <-> path resolution agrees with Python's import system.

Theorems: Props/C17.v (check_dpath = the regular import resolution for every tree and name; first root wins;
round trip name -> path -> name when the root is not a package; split_modpath joins back / stops at the first
directory without __init__.py).
Correspondence: every directory tree over 14 candidate entries with <= 5 (quick) / 6 entries, and seeded deeper
trees, are created under a temp root outside /repo and /verif; modname_to_modpath, modpath_to_modname,
split_modpath, normalize_modpath on all names/paths vs the extracted FS model (tree read back with os.walk).
Search (model independent): the implementation against importlib.machinery.PathFinder part by part (regular
packages only), the round trip on the implementation, import_module_from_path (module name, sys.path unchanged,
for modules that import fine / raise / are missing).
"""
import importlib.machinery
import itertools
import json
import os
import warnings
import shutil
import sys
import tempfile

from harness import common
from harness.common import Sym

CAND = ['a/', 'a/__init__.py', 'a/b.py', 'a/b/', 'a/b/__init__.py', 'a/b/c.py', 'a.py', 'b.py', 'a/__main__.py',
        'a_b/', 'a_b/__init__.py', 'a_b/a.py', 'a/b/__main__.py', 'b/',
        # names that merely END in a special name
        'a/x__init__.py', 'y__init__.py', 'a/z__main__.py']
NAMES = ['a', 'b', 'c', 'a_b', 'a.b', 'a.b.c', 'a.a', 'a_b.a', 'b.a', 'a.c', 'a.__main__', 'a.b.__main__', 'a.__init__', 'a.x__init__', 'y__init__', 'a.z__main__']


# the same trees under an injective renaming of the identifiers: non-ASCII letters, digits, capitals are identifiers too
REN = {'a': 'caf\u00e9', 'b': '\u03c0\u03b1\u03ba\u03ad\u03c4\u03bf', 'c': 'c9', 'a_b': 'A_b'}


def rn_entry(e):
    def comp(c):
        base, ext = (c[:-3], '.py') if c.endswith('.py') else (c, '')
        return REN.get(base, base) + ext
    return '/'.join(comp(c) for c in e.rstrip('/').split('/')) + ('/' if e.endswith('/') else '')


def rn_name(n):
    return '.'.join(REN.get(p, p) for p in n.split('.'))


def names_for(entries):
    return [rn_name(n) for n in NAMES] if any(ord(ch) > 127 for e in entries for ch in e) else NAMES


def closed(sub):
    s = set(sub)
    for e in sub:
        parts = e.rstrip('/').split('/')
        for k in range(1, len(parts)):
            if '/'.join(parts[:k]) + '/' not in s:
                return False
    return True


def make_tree(root, entries):
    for e in sorted(entries, key=lambda x: (x.count('/'), x)):
        p = os.path.join(root, e.rstrip('/'))
        if e.endswith('/'):
            os.makedirs(p, exist_ok=True)
        else:
            os.makedirs(os.path.dirname(p), exist_ok=True)
            with open(p, 'w') as f:
                f.write('VALUE = %r\n' % e)


def read_tree(root):
    """[(components, is_dir)] of everything below root, as the model's file system"""
    out = []
    for dp, dns, fns in os.walk(root):
        rel = os.path.relpath(dp, root)
        base = [] if rel == '.' else rel.split(os.sep)
        for d in dns:
            out.append([base + [d], True])
        for f in fns:
            out.append([base + [f], False])
    return out


def finder_resolve(root, name):
    """regular (pre PEP 420) resolution with the interpreter's own FileFinder, part by part"""
    d = root
    parts = name.split('.')
    for i, part in enumerate(parts):
        importlib.invalidate_caches()
        finder = importlib.machinery.FileFinder(d, (importlib.machinery.SourceFileLoader, ['.py']))
        spec = finder.find_spec(part)
        if spec is None or spec.loader is None:
            return None                     # nothing, or a namespace portion: "nothing there"
        if spec.submodule_search_locations is not None:
            d = os.path.dirname(spec.origin)
            if i == len(parts) - 1:
                return d
        else:
            return spec.origin if i == len(parts) - 1 else None
    return None


def ext_modules(ctx, tmp):
    """extension modules (files with one of the interpreter's extension suffixes) instead of .py files (a name that has BOTH is outside
    the property's quantifier: the interpreter prefers the extension module, xdoctest the source file):
    the implementation against the interpreter's FileFinder with its full loader list (no model: suffixes are outside it)"""
    import importlib.machinery as M
    from xdoctest.utils import util_import
    sufs = list(M.EXTENSION_SUFFIXES)
    rng = ctx.rng('ext')
    loaders = [(M.ExtensionFileLoader, sufs), (M.SourceFileLoader, ['.py'])]
    nv = 0
    for n in range(60 if ctx.tier == 'quick' else 600):
        root = os.path.join(tmp, 'ext%d' % n)
        entries = []
        for name in ('a', 'b', 'pkg/c', 'pkg/d'):
            r = rng.random()
            if r < 0.25:
                entries.append(name + rng.choice(sufs))
            elif r < 0.4 and len(sufs) > 1:
                # several builds of one extension module side by side (an ABI-tagged file next to a bare '.so' left over from another
                # build): the interpreter takes the first of ITS suffix list
                entries += [name + sf for sf in rng.sample(sufs, rng.randint(2, len(sufs)))]
            elif r < 0.6:
                entries.append(name + '.py')
        if any(e.startswith('pkg/') for e in entries) and rng.random() < 0.8:
            entries.append('pkg/__init__.py')
        make_tree(root, [e for e in entries])
        for name in ('a', 'b', 'pkg.c', 'pkg.d', 'pkg'):
            ctx.evaluations += 1
            d = root
            exp = None
            parts = name.split('.')
            for i, part in enumerate(parts):
                importlib.invalidate_caches()
                spec = M.FileFinder(d, *loaders).find_spec(part)
                if spec is None or spec.loader is None:
                    exp = None
                    break
                if spec.submodule_search_locations is not None:
                    d = os.path.dirname(spec.origin)
                    exp = d if i == len(parts) - 1 else None
                else:
                    exp = spec.origin if i == len(parts) - 1 else None
                    break
            try:
                got = util_import.modname_to_modpath(name, sys_path=[root])
            except Exception as e:
                got = 'raised:' + type(e).__name__
            if got != exp and nv < 4:
                nv += 1
                ctx.violation('import-resolution', {'what': 'modname_to_modpath(%r) = %r but the interpreter\'s finder resolves it to %r (tree with extension modules %r)' % (
                    name, got if got is None or str(got).startswith('raised') else os.path.relpath(got, root), exp and os.path.relpath(exp, root), sorted(entries)),
                    'tree': sorted(entries), 'theorem_or_correspondence': 'implementation vs importlib.machinery.FileFinder (extension suffixes)'}, True)


def real_extension_modules(ctx):
    """importing by path a compiled module of the interpreter's own library whose file name carries an ABI tag
    (_ctypes.cpython-312-x86_64-linux-gnu.so): the module of that name comes back"""
    import importlib.machinery as M
    import sysconfig
    from xdoctest.utils import util_import
    dyn = sysconfig.get_config_var('DESTSHARED') or ''
    names = []
    if os.path.isdir(dyn):
        for fn in sorted(os.listdir(dyn)):
            for suf in M.EXTENSION_SUFFIXES:
                if fn.endswith(suf) and suf.count('.') > 1:
                    names.append((fn[:-len(suf)], os.path.join(dyn, fn)))
                    break
    names = [n for n in names if n[0] in ('_ctypes', '_json', '_struct', '_bisect', '_heapq', '_random', 'math', 'array', '_csv', 'binascii')][:6]
    for name, path in names:
        ctx.evaluations += 1
        before = list(sys.path)
        try:
            mod = util_import.import_module_from_path(path)
            got = getattr(mod, '__name__', None)
        except Exception as e:      # noqa
            got = 'raised %s: %s' % (type(e).__name__, str(e)[:120])
        sys.path[:] = before
        back = util_import.modpath_to_modname(path)
        if got != name or back != name:
            ctx.violation('import-resolution', {'what': 'import_module_from_path(%r) gives %r, modpath_to_modname gives %r; the interpreter imports this file as %r' % (
                os.path.basename(path), got, back, name), 'path': path, 'theorem_or_correspondence': 'C17: importing by path returns the module of that name (tagged extension modules)'}, True)
    ctx.count('tagged_extension_modules_imported_by_path', len(names))


def symlink_trees(ctx, tmp):
    """modules and packages that are visible on the search path through symbolic links (a link named differently from its
    target, a linked package directory): the interpreter imports them under the name of the LINK; the four functions must agree with
    it.  Implementation against importlib's finder (no model: the model's file system has no links)"""
    from xdoctest.utils import util_import
    rng = ctx.rng('links')
    nv = 0
    for n in range(40 if ctx.tier == 'quick' else 400):
        root = os.path.join(tmp, 'ln%d' % n, 'site')
        store = os.path.join(tmp, 'ln%d' % n, 'store')
        os.makedirs(os.path.join(root, 'pkg'))
        os.makedirs(os.path.join(store, 'actual_pkg_src', 'inner'))
        open(os.path.join(root, 'pkg', '__init__.py'), 'w').write('')
        for rp in ('real_impl_v2.py', 'actual_pkg_src/__init__.py', 'actual_pkg_src/sub_mod.py', 'actual_pkg_src/inner/__init__.py', 'actual_pkg_src/inner/leaf.py'):
            open(os.path.join(store, rp), 'w').write('VALUE = %r\n' % rp)
        links = []
        if rng.random() < 0.8:
            os.symlink(os.path.join(store, 'real_impl_v2.py'), os.path.join(root, 'pkg', 'alias_mod.py'))
            links.append('pkg.alias_mod')
        if rng.random() < 0.8:
            os.symlink(os.path.join(store, 'actual_pkg_src'), os.path.join(root, 'linkpkg'))
            links += ['linkpkg', 'linkpkg.sub_mod', 'linkpkg.inner', 'linkpkg.inner.leaf']
        if rng.random() < 0.5:
            os.symlink(os.path.join(store, 'real_impl_v2.py'), os.path.join(root, 'top_alias.py'))
            links.append('top_alias')
        for name in links + ['pkg']:
            ctx.evaluations += 1
            exp = finder_resolve(root, name)
            problems = []
            try:
                got = util_import.modname_to_modpath(name, sys_path=[root])
            except Exception as e:
                got = 'raised:' + type(e).__name__
            if got != exp:
                problems.append('modname_to_modpath(%r) = %r, the interpreter resolves it to %r' % (name, got, exp))
            elif got is not None:
                try:
                    back = util_import.modpath_to_modname(got)
                except Exception as e:
                    back = 'raised:' + type(e).__name__
                if back != name:
                    problems.append('round trip %r -> %r -> %r' % (name, os.path.relpath(got, root), back))
                try:
                    d, rp = util_import.split_modpath(got)
                    if os.path.join(d, rp) != got or os.path.realpath(d) != os.path.realpath(root):
                        problems.append('split_modpath(%r) = %r' % (os.path.relpath(got, root), (d, rp)))
                except Exception as e:
                    problems.append('split_modpath raised %s' % type(e).__name__)
                if os.path.isfile(got):
                    before = list(sys.path)
                    try:
                        with warnings.catch_warnings():
                            warnings.simplefilter('ignore')
                            mod = util_import.import_module_from_path(got)
                        if mod.__name__ != name:
                            problems.append('import_module_from_path(%r) returned the module named %r' % (os.path.relpath(got, root), mod.__name__))
                    except Exception as e:
                        problems.append('import_module_from_path(%r) raised %s: %s' % (os.path.relpath(got, root), type(e).__name__, str(e)[:100]))
                    if sys.path != before:
                        problems.append('import_module_from_path changed sys.path')
                        sys.path[:] = before
                    for k in [k for k in sys.modules if k.split('.')[0] in ('pkg', 'linkpkg', 'top_alias', 'actual_pkg_src', 'real_impl_v2')]:
                        del sys.modules[k]
            if problems and nv < 4:
                nv += 1
                ctx.violation('import-resolution', {'what': 'tree with symbolic links %r: %s' % (links, '; '.join(problems)[:900]), 'links': links,
                              'theorem_or_correspondence': 'implementation vs importlib.machinery.FileFinder (symbolic links)'}, True)
    ctx.count('symlink_trees', 40 if ctx.tier == 'quick' else 400)


def rel(root, p):
    if p is None:
        return None
    r = os.path.relpath(p, root)
    return [] if r == '.' else r.split(os.sep)


def _worker(job):
    tmp, idx, entries = job
    from xdoctest.utils import util_import
    root = os.path.join(tmp, 't%d' % idx)
    os.makedirs(root)
    make_tree(root, entries)
    tree = read_tree(root)
    obs = []
    reqs = []
    problems = []
    NAMES = names_for(entries)
    for name in NAMES:
        try:
            got = util_import.modname_to_modpath(name, sys_path=[root])
        except Exception as e:
            got = 'raised:' + type(e).__name__
        exp = finder_resolve(root, name)
        g = rel(root, got) if not (isinstance(got, str) and got.startswith('raised:')) else got
        obs.append(('m2p', name, g))
        reqs.append(('fs', tree, [Sym('modname_to_modpath'), [[]], name.split('.')]))
        if name.split('.')[-1] not in ('__init__', '__main__'):
            e_rel = rel(root, exp)
            if g != e_rel:
                problems.append('modname_to_modpath(%r) = %r but the interpreter\'s finder resolves it to %r' % (name, g, e_rel))
            if g is not None and not isinstance(g, str) and not os.path.exists(os.path.join(root, '__init__.py')):
                try:
                    back = util_import.modpath_to_modname(got)
                except Exception as e:
                    back = 'raised:' + type(e).__name__
                if back != name:
                    problems.append('round trip: %r -> %r -> %r' % (name, g, back))
    # the same names through other spellings of the search path: the current directory written '' (as sys.path[0] is in
    # the REPL and under -c) or '.', entries that do not exist or are files in front of it
    cwd = os.getcwd()
    try:
        os.chdir(root)
        for sp, label in (([''], "['']"), (['.'], "['.']"), ([os.path.join(root, 'no_such_dir'), ''], "[<missing dir>, '']"),
                          ([os.path.join(root, 'a.py'), root], '[<a file>, root]')):
            for name in NAMES:
                try:
                    got = util_import.modname_to_modpath(name, sys_path=sp)
                    got = None if got is None else rel(root, os.path.abspath(got))
                except Exception as e:
                    got = 'raised:' + type(e).__name__
                base = [o[2] for o in obs if o[0] == 'm2p' and o[1] == name][0]
                if got != base:
                    problems.append('modname_to_modpath(%r, sys_path=%s) = %r, but %r with the absolute root' % (name, label, got, base))
    finally:
        os.chdir(cwd)
    for comps, isd in tree:
        p = os.path.join(root, *comps)
        if isd and not os.path.exists(os.path.join(p, '__init__.py')):
            continue
        if not isd and not p.endswith('.py'):
            continue
        for fn, tag in ((util_import.modpath_to_modname, 'p2m'), (util_import.split_modpath, 'split')):
            try:
                r = fn(p)
            except Exception as e:
                r = 'raised:' + type(e).__name__
            if tag == 'p2m':
                obs.append((tag, comps, r.split('.') if isinstance(r, str) and not r.startswith('raised:') else r))
                reqs.append(('fs', tree, [Sym('modpath_to_modname'), comps]))
            else:
                if isinstance(r, tuple):
                    d, rp = r
                    if os.path.join(d, rp) != p:
                        problems.append('split_modpath(%r) = %r does not join back' % (comps, r))
                    if os.path.exists(os.path.join(d, '__init__.py')):
                        problems.append('split_modpath(%r): directory %r still holds an __init__.py' % (comps, rel(root, d)))
                    r = [rel(root, d), rp.split(os.sep)]
                obs.append((tag, comps, r))
                reqs.append(('fs', tree, [Sym('split_modpath'), comps]))
        for hi in (True, False):
            for hm in (True, False):
                r = util_import.normalize_modpath(p, hide_init=hi, hide_main=hm)
                obs.append(('norm', (comps, hi, hm), rel(root, r)))
                reqs.append(('fs', tree, [Sym('normalize_modpath'), hi, hm, comps]))
    return (entries, tree, obs, reqs, problems)


def two_roots(ctx, tmp):
    """first root wins"""
    from xdoctest.utils import util_import
    rng = ctx.rng('roots')
    pool = [c for c in itertools.combinations(CAND, 3) if closed(c)]
    n = 0
    for k in range(150 if ctx.tier == 'quick' else 2000):
        e1, e2 = rng.choice(pool), rng.choice(pool)
        r1, r2 = os.path.join(tmp, 'r1_%d' % k), os.path.join(tmp, 'r2_%d' % k)
        os.makedirs(r1), os.makedirs(r2)
        make_tree(r1, e1), make_tree(r2, e2)
        for name in ('a', 'b', 'a.b', 'a_b.a'):
            ctx.evaluations += 1
            got = util_import.modname_to_modpath(name, sys_path=[r1, r2])
            exp = finder_resolve(r1, name) or finder_resolve(r2, name)
            if got is not None and exp is not None:
                n += 1
            if (got and os.path.realpath(got)) != (exp and os.path.realpath(exp)):
                ctx.violation('first-root', {'what': 'with two roots modname_to_modpath(%r) = %r, the first root that resolves gives %r' % (name, got, exp),
                              'root1': list(e1), 'root2': list(e2), 'theorem_or_correspondence': 'C17_first_root_wins'}, True)
                return
    ctx.nontrivial += n


def import_by_path(ctx, tmp):
    from xdoctest.utils import util_import
    cases = [('good.py', 'X = 1\n', None), ('raises.py', 'raise RuntimeError("boom at import")\n', 'raise'),
             ('pkg/__init__.py', 'Y = 2\n', None), ('pkg/sub.py', 'Z = 3\n', None), ('syntax.py', 'def (:\n', 'raise'),
             # a package that binds, in its own namespace, a name that is also the name of one of its sub-modules (the usual
             # `from .render import render`), and a deeper one: the module of that name is still the sub-module
             ('shapes/__init__.py', 'from .render import render\nfrom .deep import leaf\n', None), ('shapes/render.py', 'def render():\n    return 1\n', None),
             ('shapes/deep/__init__.py', 'leaf = 5\n', None), ('shapes/deep/leaf.py', 'W = 4\n', None)]
    # (the root directory's path holds the text '.pyc' without being a compiled file: PyCharm's ~/.pycharm_helpers, a build.pyc_cache)
    d = os.path.join(tmp, '.pycharm_helpers', 'build.pyc_cache', 'imp')
    for fn, src, _ in cases:
        p = os.path.join(d, fn)
        os.makedirs(os.path.dirname(p), exist_ok=True)
        open(p, 'w').write(src)
    real_path = list(sys.path)
    # how the search path looks when the import is asked for: the module's root directory absent, or already on it
    # at the front, in the middle, at the end, or twice
    arrangements = {
        'absent': lambda base: list(base),
        'front': lambda base: [d] + base,
        'middle': lambda base: base[:1] + [d] + base[1:],
        'last': lambda base: base + [d],
        'twice': lambda base: [d] + base + [d],
    }
    try:
        for fn, src, expect in cases + [('missing.py', None, 'raise')]:
            for index in (-1, 0):
                for aname, arrange in arrangements.items():
                    ctx.evaluations += 1
                    ctx.count('import-by-path:' + aname)
                    p = os.path.join(d, fn)
                    sys.path[:] = arrange(real_path)
                    before = list(sys.path)
                    err = None
                    mod = None
                    try:
                        mod = util_import.import_module_from_path(p, index=index)
                    except Exception as e:
                        err = e
                    after = list(sys.path)
                    problem = None
                    if after != before:
                        problem = 'sys.path changed by import_module_from_path(%s, index=%d) with the module root %s on sys.path: before %r after %r' % (
                            fn, index, aname, [x if x != d else '<ROOT>' for x in before][:4] + ['...'] + [x if x != d else '<ROOT>' for x in before][-2:],
                            [x if x != d else '<ROOT>' for x in after][:4] + ['...'] + [x if x != d else '<ROOT>' for x in after][-2:])
                    elif expect == 'raise' and err is None:
                        problem = 'import of %s did not raise' % fn
                    elif expect is None and err is not None:
                        problem = 'import of %s raised %r' % (fn, err)
                    elif mod is not None:
                        want = fn[:-3].replace('/', '.').replace('.__init__', '')
                        import types
                        if not isinstance(mod, types.ModuleType) or getattr(mod, '__name__', None) != want:
                            problem = 'import_module_from_path(%s) returned %r (named %r), expected the module %r' % (fn, mod, getattr(mod, '__name__', None), want)
                    if problem:
                        ctx.violation('import-by-path', {'what': problem, 'file': fn, 'index': index, 'arrangement': aname,
                                      'theorem_or_correspondence': 'C17 import_module_from_path'}, True)
                    for k in [k for k in sys.modules if k.split('.')[0] in ('good', 'raises', 'pkg', 'syntax', 'shapes')]:
                        del sys.modules[k]
    finally:
        sys.path[:] = real_path
    for k in [k for k in sys.modules if k.split('.')[0] in ('good', 'raises', 'pkg', 'syntax', 'shapes')]:
        del sys.modules[k]


def trees_that_change(ctx, tmp):
    """the name of a path is a function of the tree as it IS: a package marker added to or removed from any ancestor directory
    between two questions (a checkout, a generated `__init__.py`) is seen by the next question, through every entry point"""
    from xdoctest import static_analysis
    from xdoctest.utils import util_import
    root = os.path.join(tmp, 'changing')
    leaf = os.path.join(root, 'a', 'b', 'c', 'm.py')
    os.makedirs(os.path.dirname(leaf))
    open(leaf, 'w').write('X = 1\n')
    inits = {d: os.path.join(root, *d.split('/'), '__init__.py') for d in ('a', 'a/b', 'a/b/c')}

    def expected():
        parts = ['m']
        for d in ('a/b/c', 'a/b', 'a'):
            if not os.path.exists(inits[d]):
                break
            parts.insert(0, d.split('/')[-1])
        return '.'.join(parts)

    def set_inits(present):
        for d, p in inits.items():
            if d in present and not os.path.exists(p):
                open(p, 'w').write('')
            elif d not in present and os.path.exists(p):
                os.remove(p)
    states = [('a', 'a/b', 'a/b/c'), ('a/b', 'a/b/c'), ('a', 'a/b', 'a/b/c'), ('a', 'a/b/c'), ('a/b/c',), ('a', 'a/b', 'a/b/c'), (), ('a/b', 'a/b/c'), ('a', 'a/b', 'a/b/c')]
    for fn_name, fn in (('static_analysis.modpath_to_modname', static_analysis.modpath_to_modname), ('util_import.modpath_to_modname', util_import.modpath_to_modname)):
        for i, present in enumerate(states):
            set_inits(present)
            ctx.evaluations += 1
            exp = expected()
            try:
                got = fn(leaf)
            except Exception as e:      # noqa
                got = 'raised:' + type(e).__name__
            try:
                rel = util_import.split_modpath(leaf)[1]
                via_split = os.path.splitext(rel)[0].replace(os.sep, '.')
            except Exception as e:      # noqa
                via_split = 'raised:' + type(e).__name__
            if got != exp or via_split != exp:
                ctx.violation('import-resolution', {'what': '%s(a/b/c/m.py) = %r (split_modpath gives %r) with package markers in %r; the tree says %r - after the earlier questions about the same path with markers in %r' % (
                    fn_name, got, via_split, sorted(present), exp, [sorted(p) for p in states[:i]]), 'history_of_marker_sets': [sorted(p) for p in states[:i + 1]],
                    'scenario': 'tree-changes-between-questions', 'theorem_or_correspondence': 'C17 round trip on a tree that changes between two questions'}, True)
                return
    ctx.count('changing_tree_questions', 2 * len(states))


def names_that_are_files(ctx, tmp):
    """a module NAME handed to the collection entry points is resolved like the interpreter resolves it, also when the working
    directory happens to hold a file spelled like the name (an extensionless launcher script next to src/<name>/, a file
    `acme.py` while `acme.py` is asked for as a dotted name)"""
    import importlib.util
    from xdoctest import core
    layouts = [('c17tool', 'c17tool', False), ('c17acme', 'c17acme.py', True), ('c17pkg', 'c17pkg', False)]
    for li, (pkg, stray, dotted) in enumerate(layouts):
        proj = os.path.join(tmp, 'proj%d' % li)
        os.makedirs(os.path.join(proj, 'src', pkg))
        open(os.path.join(proj, 'src', pkg, '__init__.py'), 'w').write('')
        sub = 'py' if dotted else 'core'
        open(os.path.join(proj, 'src', pkg, sub + '.py'), 'w').write('def add(a, b):\n    """\n    >>> add(1, 2)\n    3\n    """\n    return a + b\n')
        open(os.path.join(proj, stray), 'w').write('#!/usr/bin/env python\nprint("a launcher script, not the package")\n')
        name = (pkg + '.py') if dotted else pkg
        cwd, path0 = os.getcwd(), list(sys.path)
        try:
            os.chdir(proj)
            sys.path.insert(0, os.path.join(proj, 'src'))
            spec = importlib.util.find_spec(name)
            want = os.path.dirname(spec.origin) if spec.origin.endswith('__init__.py') else spec.origin
            ctx.evaluations += 2
            try:
                got = os.path.realpath(core._rectify_to_modpath(name))
            except Exception as e:      # noqa
                got = 'raised %s' % type(e).__name__
            with warnings.catch_warnings():
                warnings.simplefilter('ignore')
                try:
                    found = sorted((os.path.relpath(os.path.realpath(e.modpath), proj), e.callname) for e in core.parse_doctestables(name, analysis='static'))
                except Exception as e:      # noqa
                    found = 'raised %s' % type(e).__name__
            exp_found = [(os.path.join('src', pkg, sub + '.py'), 'add')]
            problems = []
            if got != os.path.realpath(want):
                problems.append('the name %r resolves to %r; the interpreter imports %r (a file spelled %r stands in the working directory)' % (name, got, want, stray))
            if found != exp_found:
                problems.append('collecting the doctests of %r gives %r, by construction %r' % (name, found, exp_found))
            if problems:
                ctx.violation('import-resolution', {'what': '; '.join(problems)[:900], 'layout': [pkg, stray, dotted],
                              'theorem_or_correspondence': 'C17: a name is resolved as the interpreter resolves it (core._rectify_to_modpath / parse_doctestables by name)'}, True)
        finally:
            os.chdir(cwd)
            sys.path[:] = path0
            for k in [k for k in sys.modules if k.startswith('c17')]:
                del sys.modules[k]
    ctx.count('names_that_are_files_layouts', len(layouts))


def run(ctx):
    quick = ctx.tier == 'quick'
    tmp = tempfile.mkdtemp(prefix='xdverif_c17_')
    try:
        trees = []
        for k in range(0, (5 if quick else 6) + 1):
            for sub in itertools.combinations(CAND, k):
                if closed(sub):
                    trees.append(list(sub))
        rng = ctx.rng('deep')
        for _ in range(200 if quick else 4000):
            sub = []
            for c in CAND:            # parents precede their children in CAND
                if rng.random() < 0.65 and closed(sub + [c]):
                    sub.append(c)
            trees.append(sub)
        trees += [[rn_entry(e) for e in t] for t in trees[::4]]
        jobs = [(tmp, i, t) for i, t in enumerate(trees)]
        results = common.pmap(_worker, jobs, chunksize=20)
        allreqs = [r for res in results for r in res[3]]
        answers = []
        for i in range(0, len(allreqs), 5000):
            answers += common.model_batch(allreqs[i:i + 5000])
        pos = 0
        nv = {'corr': 0, 'imp': 0}
        for entries, tree, obs, reqs, problems in results:
            ans = answers[pos:pos + len(reqs)]
            pos += len(reqs)
            found = 0
            for (tag, arg, got), a in zip(obs, ans):
                ctx.evaluations += 1
                m = a
                if isinstance(a, list) and a and a[0] == Sym('some'):
                    m = a[1]
                if tag == 'split' and isinstance(m, list) and len(m) == 2:
                    m = [m[0], m[1]]
                if tag == 'm2p' and got is not None:
                    found += 1
                if got != m and not (isinstance(got, str) and got.startswith('raised:') and m is None):
                    ctx.corr_failures.append((entries, tag, arg))
                    if nv['corr'] < 5:
                        nv['corr'] += 1
                        ctx.violation('fs-correspondence', {'what': '%s(%r) = %r, FS model gives %r' % (tag, arg, got, m), 'tree': entries,
                                      'theorem_or_correspondence': 'correspondence util_import vs Model/FS.v (feeds C17_resolve_iff, C17_roundtrip, C17_split_*)'}, bool(problems))
            if found:
                ctx.nontrivial += 1
            if problems and nv['imp'] < 5:
                nv['imp'] += 1
                ctx.violation('import-resolution', {'what': '; '.join(problems)[:1000], 'tree': entries,
                              'theorem_or_correspondence': 'implementation vs importlib.machinery.FileFinder / round trip'}, True)
        two_roots(ctx, tmp)
        import_by_path(ctx, tmp)
        ext_modules(ctx, tmp)
        symlink_trees(ctx, tmp)
        names_that_are_files(ctx, tmp)
        trees_that_change(ctx, tmp)
        real_extension_modules(ctx)
    finally:
        shutil.rmtree(tmp, ignore_errors=True)
    ctx.exhaustive = True
    ctx.add_rule('every parent-closed tree with <= %d of 14 candidate entries (packages, modules, plain directories next to same-named .py files, __main__.py, '
                 'underscore names) + seeded larger ones; %d names per tree; every .py file / package dir for the reverse direction and the 4 normalize settings; '
                 'two-root search paths; import_module_from_path on 6 module kinds x index x 5 arrangements of sys.path (module root absent / front / middle / last / twice); non-trivial = tree in which some name resolves' % (5 if quick else 6, len(NAMES)))
    ctx.sample({'tree': trees[40], 'names': NAMES[:5]})
    ctx.sample({'tree': trees[-1]})
    ctx.assumptions += ['symbolic links and extension modules are outside the MODEL (two strata compare the implementation with the interpreter\'s finder directly); case-insensitive file systems, egg-links and editable-install finders are never generated',
                        'PEP 420 namespace portions count as "nothing there" (reading note)']


def replay(path):
    d = json.load(open(path))
    tmp = tempfile.mkdtemp(prefix='xdverif_c17r_')
    try:
        if 'tree' not in d:
            print(json.dumps(d, indent=1)[:2000])
            print('VIOLATION property=C17 replay=%s' % path)
            return 1
        entries, tree, obs, reqs, problems = _worker((tmp, 0, d['tree']))
        ans = common.model_batch(reqs)
        bad = list(problems)
        for (tag, arg, got), a in zip(obs, ans):
            m = a[1] if isinstance(a, list) and a and a[0] == Sym('some') else a
            if got != m and not (isinstance(got, str) and got.startswith('raised:') and m is None):
                bad.append('%s(%r) impl %r model %r' % (tag, arg, got, m))
        print('tree=%r\nproblems=%r' % (d['tree'], bad))
        if bad:
            print('VIOLATION property=C17 replay=%s' % path)
            return 1
    finally:
        shutil.rmtree(tmp, ignore_errors=True)
    return 0
