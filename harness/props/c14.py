"""C14 — Malformed docstrings are contained: bad syntax never crashes collection.

Theorems: Props/C14.v (DoctestParser.parse returns parts or the parser's own error for every oracle answer,
raising ones included; parse_docstr_examples never propagates when its producers raise only parse errors;
warning iff failure; no example from the broken block or later; other docstrings unaffected).
Correspondence: (1) DoctestParser.parse on grammar-generated strings vs the extracted parser model (outcome class,
failure phase, parts) with CPython answering the oracles; (2) parse_docstr_examples x 3 styles vs the extracted
Collect model fed with split_google_docblocks / parse answers (number of examples, their num and lineno, warning,
propagation); (3) the broken docstring embedded between two valid ones in a module x 3 styles.
Search (model independent): any exception class other than DoctestParseError out of parse, any exception out of
parse_docstr_examples / parse_doctestables, any timeout (5 s alarm), any lost or failing neighbour.
"""
import json
import os
import shutil
import signal
import sys
import tempfile
import warnings

from harness import common, parsemodel
from harness.common import Sym

FRAGS = ['>>> ', '... ', '>>>', '...', 'x = 1', 'print(x)', 'f(', ')', '[', ']', '{', '}', "'", '"', "'''", '"""', '\\', '\\\n',
         '# xdoctest: +SKIP', '# xdoctest: +REQUIRES(', '# xdoctest: +REQUIRES(a,(b)', '# doctest: +ELLIPSIS',
         '# XDOCTEST: +REQUIRES(', '# XDoc: +REQUIRES(a,(b)', '# DocTest: +SKIP)', '# XDOC: +SKIP', '# DISABLE_DOCTEST', '# SCRIPT', 'def f():', 'class A:',
         'return', 'if x:', 'else:', 'lambda', 'yield', 'import os', '    ', '\t', '\n', '\n', '\n', '\x0c', '\x0b', '\r', '\x00',
         'Example:', 'Args:', 'Returns:', 'é', '　', '1', 'x', ';', ':', ',', '@', '=', '==', '(' * 30, '[(' * 20, 'text', 'Traceback (most recent call last):',
         '<BLANKLINE>', '  # comment', '$', '?', '`', '!x', 'async def g():', 'await z', 'with a as b:', 'try:', 'except:', 'global x', 'nonlocal y',
         # long runs of one kind of character (numbers with dozens of digits, long names, long operator runs): time, not only answers
         '340282366920938463463374607431768211456', '3.14159265358979323846264338327950288419716939937510', '1_000' * 12, '0x' + 'f' * 48,
         'a' * 90, '.' * 40, '-' * 60, '1e' + '9' * 30, '0' * 45]
GOOD_BEFORE = ['>>> a = 1', '>>> print(a)', '1']
SKIPHDR = ['Ignore:', 'Script:', 'DisableDoctest:', 'Benchmark:', 'Example:', 'Doctest:', 'Notes:', 'Example :', 'Args :', 'Returns  ::', 'Examples::', 'Doctest : ']


class Timeout(BaseException):
    pass


def _alarm(signum, frame):
    raise Timeout()


def gen_strings(ctx):
    quick = ctx.tier == 'quick'
    rng = ctx.rng('fuzz')
    out = []
    for _ in range(6000 if quick else 150000):
        n = rng.randint(1, 14)
        parts = []
        for _j in range(n):
            r = rng.random()
            if r < 0.25:
                parts.append('\n' + ' ' * rng.choice([0, 0, 4, 8]) + rng.choice(['>>> ', '... ', '>>> ', '']))
            parts.append(rng.choice(FRAGS))
        s = ''.join(parts)
        if rng.random() < 0.5:
            s = '>>> ' + s
        out.append(s)
    # structured: google docstrings with a good block and a broken one, skip headers
    for _ in range(1500 if quick else 30000):
        lines = ['Summary line.', '']
        for _b in range(rng.randint(1, 4)):
            hdr = rng.choice(SKIPHDR)
            lines.append(hdr)
            good = rng.random() < 0.6
            body = list(GOOD_BEFORE) if good else ['>>> ' + ''.join(rng.choice(FRAGS) for _ in range(rng.randint(1, 4)))]
            if rng.random() < 0.3:
                body.append('>>> y = (1,')
                if rng.random() < 0.5:
                    body.append('...      2)')
            if rng.random() < 0.2:
                # the block starts with one of the legacy remarks that force-disable a doctest: it is still parsed when collected
                body.insert(0, '>>> ' + rng.choice(['# DISABLE_DOCTEST', '# SCRIPT', '#UNSTABLE', '# FAILING', '# slow_doctest', '# xdoctest: +SKIP']))
            lines += ['    ' + l for l in body]
            if rng.random() < 0.7:
                lines.append('')
            if rng.random() < 0.2:
                lines.append('prose between blocks')
        base = rng.choice([0, 4])
        out.append('\n'.join(' ' * base + l if l else l for l in lines))
    return out + fixed_strings()


def fixed_strings():
    """shapes that must not depend on what the random fuzz happens to draw (each was once the only thing between a seeded change and
    a quiet check): broken docstrings whose prompt lines are led by white space other than blank/tab (pasted from a web page), and
    the backwards-compatible mixed-prompt layout in which a statement is cut in front of a want"""
    out = []
    for ws in ('\xa0', '\u3000', '\x1f', ' \xa0', '\xa0\xa0\xa0\xa0'):
        for intro in ('', 'intro\n\n', 'Usage:\n\n'):
            for pad in ('', '    '):
                for body in (['>>> x = ('], ['>>> def f() return 1'], ['>>> print(1)', '1', '>>> y = ['], [">>> s = '''abc"], ['>>> print(1)', '1'],
                             ['>>> if True:', '>>> pass']):
                    out.append(intro + '\n'.join(pad + (ws + l if l.startswith('>>>') else l) for l in body) + '\n')
    # lines that hold nothing but white space, a lot of it (trailing indentation left by an editor, a pasted table row): with and without
    # other white-space characters behind the blanks
    for nblank in (24, 40, 64, 200):
        for tail in ('', '\r', '\x0b', '\xa0', '\t '):
            out.append('Intro.\n' + ' ' * nblank + tail + '\n    >>> print(1)\n    1\n')
            out.append('    >>> x = (\n' + ' ' * nblank + tail + '\n    text\n')
    # a broken statement on a SHORT prompt line directly below the want of a deeply indented example (no empty line between them)
    for depth in (5, 6, 7, 8, 12, 16):
        for broken in ('>>> (', '>>> x=(', '>>> [1,', ">>> '''", '>>> f(]'):
            for base in ('', '  '):
                out.append('Intro.\n\n' + base + ' ' * depth + '>>> print(1)\n' + base + ' ' * depth + '1\n' + base + broken + '\n')
                out.append(base + ' ' * depth + '>>> print(1)\n' + base + ' ' * depth + '1\n' + base + broken + '\n' + base + 'text after it\n')
    for pad in ('', '    '):
        for pre in ([], ['>>> a = 1'], ['>>> print(7)', '7']):
            for stmt, want in ((['>>> x = (1,', '>>>      2,', '...      3)'], ['(1, 2, 3)']), (['>>> x = [1,', '>>>      2,', '...      3]', '>>> x'], ['[1, 2, 3]']),
                               ([">>> s = '''a", '>>> b', "... c'''"], ['text that follows']), (['>>> f(1,', '>>>   2', '...   )'], ['3']),
                               (['>>> x = (1,', '...      2,', '>>>      3)'], ['(1, 2, 3)'])):
                out.append('\n'.join(pad + l for l in pre + stmt + want) + '\n')
                out.append('Summary.\n\n' + '\n'.join(pad + l for l in pre + stmt + want) + '\n\nTrailing prose.\n')
    return out


def impl_examples(docstr, style):
    """-> ('ok', [(num, lineno)], n_warnings) | ('raised', class) | ('timeout',)"""
    from xdoctest import core
    if _TIMEOUTS[0] >= 6:
        return ('timeout',)       # already reported several times by this worker: see _TIMEOUTS
    old = signal.signal(signal.SIGALRM, _alarm)
    signal.alarm(5)
    try:
        with warnings.catch_warnings(record=True) as wl:
            warnings.simplefilter('always')
            devnull = open(os.devnull, 'w')
            so = sys.stdout
            sys.stdout = devnull
            try:
                exs = list(core.parse_docstr_examples(docstr, callname='f', modpath=None, lineno=10, style=style))
            finally:
                sys.stdout = so
                devnull.close()
        return ('ok', [(e.num, e.lineno) for e in exs], len([w for w in wl if 'Cannot scrape' in str(w.message)]))
    except Timeout:
        _TIMEOUTS[0] += 1
        return ('timeout',)
    except Exception as e:
        return ('raised', type(e).__name__)
    finally:
        signal.alarm(0)
        signal.signal(signal.SIGALRM, old)


def oracle_inputs(docstr):
    """answers of the google splitter and of DoctestParser.parse, as data for the Collect model
    (under an alarm: a parse that hangs must not hang the check; the hang itself is reported by the caller)"""
    if _TIMEOUTS[0] >= 6:
        return Sym('splitter-raised'), None
    old = signal.signal(signal.SIGALRM, _alarm)
    signal.alarm(10)
    try:
        return _oracle_inputs(docstr)
    except Timeout:
        _TIMEOUTS[0] += 1
        return Sym('splitter-raised'), None
    finally:
        signal.alarm(0)
        signal.signal(signal.SIGALRM, old)


def _oracle_inputs(docstr):
    from xdoctest.docstr import docscrape_google
    from xdoctest import exceptions, parser
    def parse_class(text):
        try:
            with warnings.catch_warnings():
                warnings.simplefilter('ignore')
                return None, parser.DoctestParser().parse(text)
        except exceptions.DoctestParseError:
            return Sym('parse'), None
        except Timeout:
            raise
        except Exception:
            return Sym('other'), None
    try:
        blocks = docscrape_google.split_google_docblocks(docstr)
        split = []
        for typ, (text, off) in blocks:
            is_ex = typ.startswith(('Example', 'Doctest', 'Script', 'Benchmark'))
            cls = parse_class(text)[0] if is_ex else None
            split.append([bool(is_ex), off, common.some(cls) if cls is not None else None])
        split = common.some(split)
    except exceptions.MalformedDocstr:
        split = None
    except Timeout:
        raise
    except Exception:
        split = Sym('splitter-raised')
    cls, parts = parse_class(docstr)
    if cls is not None:
        parsed = [Sym('raise'), cls]
    else:
        items = []
        skips = ('disabledoctest:', 'disableexample:', 'skipdoctest:', 'ignore:', 'script:', 'benchmark:', 'sympy:')
        for p in parts:
            if isinstance(p, str):
                items.append([Sym('text'), p.count('\n') + 1, p.strip().lower().endswith(skips)])
            else:
                items.append([Sym('part'), p.n_lines])
        parsed = [Sym('items'), items]
    return split, parsed


_TIMEOUTS = [0]      # per worker process: after a few calls that did not return, the remaining strings are not evaluated (the
                     # violation is reported; waiting 5 s for each of thousands of strings would only delay it)


def _worker(strings):
    out = []
    res, _tabs = parsemodel.model_parse_many(strings)
    reqs = []
    for s, r in zip(strings, res):
        if _TIMEOUTS[0] >= 3:
            out.append([[Sym('not-evaluated')], parsemodel.canon_model(r), True, {st: ('ok', [], 0) for st in ('google', 'freeform', 'auto')}, True])
            reqs += [('ping',)] * 3
            continue
        old = signal.signal(signal.SIGALRM, _alarm)
        signal.alarm(5)
        try:
            try:
                i = parsemodel.impl_parse(s)
            except Timeout:
                i = [Sym('timeout')]
                _TIMEOUTS[0] += 1
        finally:
            signal.alarm(0)
            signal.signal(signal.SIGALRM, old)
        m = parsemodel.canon_model(r)
        styles = {}
        split, parsed = oracle_inputs(s)
        for st in ('google', 'freeform', 'auto'):
            styles[st] = impl_examples(s, st)
            reqs.append(('style_examples', Sym(st), split, parsed) if split != Sym('splitter-raised') else ('ping',))
        out.append([i, m, common.sx_enc(i) == common.sx_enc(m), styles, split == Sym('splitter-raised')])
    ans = common.model_batch(reqs)
    for k, o in enumerate(out):
        o.append({st: ans[3 * k + j] for j, st in enumerate(('google', 'freeform', 'auto'))})
    return out


MOD_TMPL = '''
def before():
    r"""
    >>> print('before')
    before
    """

def broken():
    r"""
%s
    """

def after():
    r"""
    Example:
        >>> 1 + 1
        2
    """
'''


def embedded(ctx, strings):
    from xdoctest import core
    tmp = tempfile.mkdtemp(prefix='xdverif_c14_')
    nv = 0
    nhang = 0        # collections that did not return: after four the remaining modules are skipped (all four are reported)
    try:
        rng = ctx.rng('embed')
        picks = [s for s in strings if '"""' not in s and '\x00' not in s and '\\' not in s and '\r' not in s and '\x0c' not in s]
        picks = rng.sample(picks, min(len(picks), 150 if ctx.tier == 'quick' else 3000))
        # the same with a NON-raw literal whose text holds escape sequences (so that its value has more newlines than
        # the literal has physical lines): a handful of fixed texts, whatever the fuzz sample holds
        escaped = ['Text with escapes ' + '\\n' * k + ' end.\n\n    >>> print(%d)\n    %d' % (k, k) for k in (1, 3, 12, 60)] + \
                  ['>>> print("a' + '\\n' * k + 'b")' for k in (2, 30)] + ['Tabs \\t and \\\\ backslashes \\x41 ' + '\\n' * 25]
        picks = [(s, True) for s in picks] + [(s, False) for s in escaped]
        # line ends written as bare carriage returns inside the broken docstring (text pasted from an old editor): the tokenizer
        # counts them as line breaks; in the middle of the module and as its last docstring
        cr_texts = ['>>> print(1)\r    1\r    >>> x = (\r    some text\r' * k for k in (1, 3, 6)] + ['Example:\r        >>> f(\r\r\r\r    Args:\r']
        picks += [(s, 'cr') for s in cr_texts] + [(s, 'cr-last') for s in cr_texts]
        for n, (s, raw) in enumerate(picks):
            if nhang >= 4:
                break
            body = '\n'.join('    ' + l for l in s.split('\n'))
            src = MOD_TMPL % body
            if raw == 'cr-last':
                # the broken docstring is the last thing in the file
                head, tail = src.split('def broken():', 1)
                broken_fn, after_fn = tail.split('def after():', 1)
                src = head + 'def after():' + after_fn + '\ndef broken():' + broken_fn.rstrip('\n') + '\n'
            if not raw:
                src = src.replace('def broken():\n    r"""', 'def broken():\n    """', 1)
            try:
                compile(src, 'm', 'exec')
            except Exception:
                continue          # not a module any more (the fuzz text closed the string literal): not this property
            path = os.path.join(tmp, 'xdverif_c14_m%d.py' % n)
            open(path, 'w', newline='').write(src)
            for style in ('auto', 'google', 'freeform'):
                ctx.evaluations += 1
                problem = None
                old = signal.signal(signal.SIGALRM, _alarm)
                signal.alarm(10)
                try:
                    with warnings.catch_warnings():
                        warnings.simplefilter('ignore')
                        so = sys.stdout
                        sys.stdout = open(os.devnull, 'w')
                        try:
                            exs = list(core.parse_doctestables(path, style=style, analysis='static'))
                        finally:
                            sys.stdout.close()
                            sys.stdout = so
                    names = [e.callname for e in exs]
                    for need in ('before', 'after'):
                        if need not in names and not (need == 'before' and style == 'google'):
                            problem = 'valid neighbour %r lost from the collection (%r)' % (need, names)
                    for e in exs:
                        if e.callname in ('before', 'after'):
                            so = sys.stdout
                            sys.stdout = open(os.devnull, 'w')
                            try:
                                summary = e.run(verbose=0, on_error='return')
                            finally:
                                sys.stdout.close()
                                sys.stdout = so
                            if not summary['passed']:
                                problem = 'valid neighbour %s does not pass' % e.callname
                except Timeout:
                    problem = 'collection hangs (10 s alarm)'
                    nhang += 1
                except Exception as e:
                    problem = 'parse_doctestables raised %s: %s' % (type(e).__name__, str(e)[:200])
                finally:
                    signal.alarm(0)
                    signal.signal(signal.SIGALRM, old)
                if problem and nv < 4:
                    nv += 1
                    ctx.violation('module-collection', {'what': problem, 'module_source': src, 'style': style,
                                  'theorem_or_correspondence': 'C14_others_unaffected on core.parse_doctestables'}, True)
    finally:
        shutil.rmtree(tmp, ignore_errors=True)


def run(ctx):
    strings = gen_strings(ctx)
    chunks = [strings[i:i + 100] for i in range(0, len(strings), 100)]
    results = [r for ch in common.pmap(_worker, chunks) for r in ch]
    nv = {}
    def viol(kind, payload, found):
        nv[kind] = nv.get(kind, 0) + 1
        if nv[kind] <= 4:
            ctx.violation(kind, payload, found)
    for s, (i, m, same, styles, splitter_raised, models) in zip(strings, results):
        ctx.evaluations += 4
        key = str(i[0]) + ('/' + str(i[1]) if len(i) > 1 and i[0] == Sym('parseerror') else '')
        ctx.count('parse:' + key)
        if i[0] == Sym('parseerror'):
            ctx.nontrivial += 1
        bad = None
        if i[0] == Sym('raised'):
            bad = 'DoctestParser.parse raised %s instead of DoctestParseError' % i[1]
        elif i[0] == Sym('timeout'):
            bad = 'DoctestParser.parse did not return within 5 s'
        if bad:
            viol('parse-escape', {'what': bad, 'docstring': s, 'theorem_or_correspondence': 'C14_parse_contained on DoctestParser.parse'}, True)
        if not same:
            ctx.corr_failures.append(s)
            viol('parse-correspondence', {'what': 'DoctestParser.parse differs from the model', 'docstring': s,
                 'impl': common.sx_enc(i)[:1500], 'model': common.sx_enc(m)[:1500],
                 'theorem_or_correspondence': 'correspondence parse (feeds C14_parse_contained)'}, bool(bad))
        for st, r in styles.items():
            ctx.count('examples:%s:%s' % (st, r[0] if r[0] != 'ok' else ('warned' if r[2] else 'clean')))
            bad2 = None
            if r[0] == 'raised':
                bad2 = 'parse_docstr_examples(style=%s) raised %s' % (st, r[1])
            elif r[0] == 'timeout':
                bad2 = 'parse_docstr_examples(style=%s) did not return within 5 s' % st
            if bad2:
                viol('examples-escape', {'what': bad2, 'docstring': s, 'style': st,
                     'theorem_or_correspondence': 'C14_examples_contained on core.parse_docstr_examples'}, True)
            if splitter_raised:
                ctx.count('splitter-raised-non-malformed')
                continue
            mo = models[st]
            if r[0] == 'ok':
                mex = [(a, 10 + b) for a, b in mo[0]]
                if mex != r[1] or bool(mo[1]) != bool(r[2]) or mo[2]:
                    ctx.corr_failures.append((s, st))
                    # broken syntax must give a warning and no example from the broken part
                    viol('examples-correspondence', {
                        'what': 'parse_docstr_examples(style=%s): examples (num, lineno) %r warnings %d; Collect model %r warned=%s propagates=%s' % (
                            st, r[1], r[2], mex, mo[1], mo[2]),
                        'docstring': s, 'style': st, 'theorem_or_correspondence': 'correspondence style_examples/contain (feeds C14_examples_contained, C14_google_blocks)'},
                        # a block of this docstring does not parse (oracle) and the examples stop there, yet no warning was issued:
                        # that is the property's own clause, not only a disagreement with the model
                        bool(mo[1]) and not r[2])
    embedded(ctx, strings)
    ctx.add_rule('strings assembled from %d fragments (prompts, brackets, quotes, triple quotes, backslashes, directive fragments incl. unbalanced parentheses, '
                 'control characters NUL/FF/VT/CR, keywords, deep nesting, tabs, non-ASCII) and google-structured docstrings with good and broken blocks and skip headers: '
                 'parse, and parse_docstr_examples x {google, freeform, auto}; a sample embedded between two valid docstrings in a module x 3 styles; '
                 'evaluations counts calls; non-trivial = string on which parse raises DoctestParseError' % len(FRAGS))
    ctx.sample({'docstring': strings[11]})
    ctx.sample({'docstring': strings[-5]})
    ctx.assumptions += ['tokenizer/ast answers are CPython\'s (never hanging is tested under a 5 s alarm per call, not proved)',
                        'Directive.extract answers are taken from xdoctest']


def replay(path):
    d = json.load(open(path))
    if 'docstring' in d:
        s = d['docstring']
        r = _worker([s])[0]
        print('docstring=%r\nimpl=%s\nmodel=%s\nstyles=%r\nmodels=%r' % (s, common.sx_enc(r[0])[:800], common.sx_enc(r[1])[:800], r[3], r[5]))
        bad = (not r[2]) or r[0][0] in (Sym('raised'), Sym('timeout')) or any(v[0] != 'ok' for v in r[3].values())
        if not bad and not r[4]:
            for st, v in r[3].items():
                mo = r[5][st]
                if [(a, 10 + b) for a, b in mo[0]] != v[1] or bool(mo[1]) != bool(v[2]):
                    bad = True
        if bad:
            print('VIOLATION property=C14 replay=%s' % path)
            return 1
        return 0
    print(json.dumps(d, indent=1)[:3000])
    print('VIOLATION property=C14 replay=%s' % path)
    return 1
