"""C19 — The dump command emits valid Python holding every doctest statement in order.

Theorems: Props/C19.v (structure of the emitted text: one function per doctest, header + four-blank indented
body; the body of a part = its executable lines in order minus star imports + the want as comments).
Correspondence: runner.doctest_module(path, 'dump') on generated modules (1..6 doctests from the program
generator, plus star imports - single, adjacent, separated) vs the extracted dump_module, character for character
(the `from mod import names` header line, which pyflakes decides, is an oracle).
Search (model independent): the emitted text must parse (ast.parse), hold exactly one FunctionDef per enabled
doctest, and the statements of each function body (docstring and import header aside) must equal, by ast.dump, the
statements of the doctest's de-prompted source in order with star imports removed; every want line must appear
as a comment.
"""
import ast
import contextlib
import io
import json
import os
import shutil
import sys
import tempfile
import warnings

from harness import common, gendoc, runmodel
from harness.common import Sym

STAR_KINDS = ['star1', 'star2', 'star_sep']


def star_stmt(kind, k):
    s = gendoc.Stmt('assign', k)
    if kind == 'star1':
        s.lines = ['from os.path import *', 'x%d = t(%d)' % (k, k)]
        s.starts = [0, 1]
    elif kind == 'star2':
        s.lines = ['from os.path import *', 'from math import *', 'x%d = t(%d)' % (k, k)]
        s.starts = [0, 1, 2]
    else:
        s.lines = ['from os.path import *', 'y%d = 0' % k, 'from math import *', 'x%d = t(%d)' % (k, k)]
        s.starts = [0, 1, 2, 3]
    s.star = True
    return s


FIRST_LINE_DISABLE = __import__('re').compile(r'>>>\s*#\s*(DISABLE|UNSTABLE|FAILING|SCRIPT|SLOW_DOCTEST)', __import__('re').IGNORECASE)


def gen_module(rng, idx):
    """-> (source, [(funcname, stmts, wants)])"""
    src = ['TRACE = []', gendoc.PRELUDE, '']
    docs = []
    used_special = set()
    for j in range(rng.randint(1, 6)):
        n = rng.randint(1, 6)
        stmts = []
        for i in range(n):
            if rng.random() < 0.12:
                stmts.append(star_stmt(rng.choice(STAR_KINDS), 10 + i))
            else:
                stmts.append(gendoc.Stmt(rng.choice(gendoc.ALL_KINDS), 10 + i))
        tagged = rng.random() < 0.15
        if tagged:
            # output (and so a want line) that reads like a section heading, inside a google block: it is a line of the example
            stmts.insert(rng.randrange(len(stmts) + 1), gendoc.Stmt('print_tagword', 40 + j))
            if rng.random() < 0.5:
                stmts.append(gendoc.Stmt('assign', 50 + j))
        text, wants = gendoc.render_layout(rng, stmts, google=True if tagged else rng.random() < 0.3, want_prob=1.0 if tagged else 0.6)
        if rng.random() < 0.2:
            # a long run of statements without wants, with block directives (that change nothing) far apart
            stmts = [gendoc.Stmt(rng.choice(['assign', 'multi', 'compound', 'for', 'semicolon', 'augassign', 'def']), 10 + i) for i in range(rng.randint(9, 18))]
            where = set(rng.sample(range(1, len(stmts)), rng.randint(2, 4)))
            tl = []
            for i, st in enumerate(stmts):
                if i in where:
                    tl.append('>>> # xdoctest: ' + rng.choice(['+REQUIRES(module:os)', '-REQUIRES(module:os)', '-SKIP', '+ELLIPSIS', '-IGNORE_WHITESPACE']))
                tl += st.render('ps2', 0)
            text, wants = '\n'.join(tl), {}
        if rng.random() < 0.15:
            # a freeform docstring with a paragraph that is not meant to run (a special label: Ignore:, Script:, ...) between its examples:
            # the examples in front of it and behind the next line of prose are the doctest
            s1 = [gendoc.Stmt(rng.choice(['assign', 'print', 'multi', 'for', 'expr', 'def']), 10 + i) for i in range(rng.randint(1, 3))]
            s2 = [gendoc.Stmt(rng.choice(['assign', 'print', 'multi', 'for', 'expr', 'augassign']), 30 + i) for i in range(rng.randint(1, 3))]
            t1, w1 = gendoc.render_layout(rng, s1, google=False, allow_prose=False, vary_indent=False)
            t2, w2 = gendoc.render_layout(rng, s2, google=False, allow_prose=False, vary_indent=False)
            hdr = rng.choice(['Ignore:', 'Script:', 'DisableDoctest:', 'SkipDoctest:', 'Benchmark:', 'DisableExample:'])
            pad = t1[:len(t1) - len(t1.lstrip(' '))]
            mid = ['', pad + hdr, pad + '    >>> print("never dumped %d")' % j, pad + '    never dumped %d' % j, pad + '    >>> never_dumped = 1', '',
                   pad + 'After that paragraph the examples go on.', '']
            text = t1 + '\n' + '\n'.join(mid) + '\n' + t2
            stmts = s1 + s2
            wants = dict(w1)
            wants.update({k + len(s1): v for k, v in w2.items()})
        if rng.random() < 0.15:
            text = '>>> # xdoctest: +SKIP\n' + text if not text.startswith(('Summary', ' ')) and text.startswith('>>>') else text
        name = 'fn%d_%d' % (idx, j)
        if rng.random() < 0.12 and not any(n in used_special for n in ('dump', 'all')):
            # a callable called like a command word of the runner (a serialisation module has load/dump)
            name = rng.choice(['dump', 'all'])
            used_special.add(name)
        disabled = False
        if rng.random() < (0.5 if name in ('dump', 'all') else 0.1) and text.startswith('>>>'):
            text = '>>> # %s\n' % rng.choice(['DISABLE_DOCTEST', 'SCRIPT', 'unstable', 'FAILING']) + text
            disabled = True         # force-disabled by the documented first-line rule: no test function for it
        first_prompt = next((l.strip() for l in text.split('\n') if l.strip().startswith('>>>')), '')
        if FIRST_LINE_DISABLE.match(first_prompt) and not disabled:
            continue
        block = ['def %s():' % name, '    r"""'] + ['    ' + l if l else l for l in text.split('\n')] + ['    """', '']
        if rng.random() < 0.2 and name not in ('dump', 'all'):
            # a definition under a condition (a platform or feature test): collected and dumped like any other
            cond = rng.choice(['isinstance(TRACE, list)', 'not TRACE', 'TRACE == []', 'hasattr(TRACE, "append")', 'len(TRACE) < 1'])
            block = ['if %s:' % cond] + ['    ' + l if l else l for l in block]
        src += block
        if not disabled:
            docs.append((name, stmts, wants))
    return '\n'.join(src) + '\n', docs


def dump_impl(path):
    from xdoctest import runner
    buf = io.StringIO()
    with contextlib.redirect_stdout(buf), contextlib.redirect_stderr(io.StringIO()), warnings.catch_warnings():
        warnings.simplefilter('ignore')
        runner.doctest_module(path, command='dump', argv=[], verbose=0, style='auto', analysis='static')
    return buf.getvalue()


class _NormStr(ast.NodeTransformer):
    """a multi-line string literal placed inside a function gets its continuation lines indented with the
    rest of the block: compare string constants up to the indentation of their continuation lines"""
    def visit_Constant(self, node):
        if isinstance(node.value, str):
            import re
            return ast.copy_location(ast.Constant(value=re.sub(r'\n[ \t]*', '\n', node.value)), node)
        return node


def norm_dump(node):
    return ast.dump(_NormStr().visit(node))


def expected_statements(stmts):
    """ast of the de-prompted source, star imports removed, in order"""
    lines = []
    for s in stmts:
        for l in s.plain_source():
            if ' import *' in l:
                continue
            lines.append(l)
    return [norm_dump(n) for n in ast.parse('\n'.join(lines)).body]


def check_dump(text, docs, modname):
    problems = []
    try:
        tree = ast.parse(text)
    except SyntaxError as e:
        return ['the dumped text is not valid Python: %s (line %s: %r)' % (e.msg, e.lineno, (text.split('\n')[e.lineno - 1] if e.lineno else ''))]
    funcs = [n for n in tree.body if isinstance(n, ast.FunctionDef)]
    if len(funcs) != len(docs) or len(tree.body) != len(docs):
        problems.append('%d top-level statements / %d functions for %d enabled doctests' % (len(tree.body), len(funcs), len(docs)))
        return problems
    tlines = text.split('\n')
    for fi, (f, (name, stmts, wants)) in enumerate(zip(funcs, docs)):
        if not f.name.endswith(name):
            problems.append('function %s emitted where %s was expected' % (f.name, name))
            continue
        body = list(f.body)
        if body and isinstance(body[0], ast.Expr) and isinstance(getattr(body[0], 'value', None), ast.Constant) and isinstance(body[0].value.value, str):
            body = body[1:]
        while body and isinstance(body[0], ast.ImportFrom) and body[0].module == modname:
            body = body[1:]
        got = [norm_dump(n) for n in body]
        exp = expected_statements(stmts)
        if got != exp:
            k = next((i for i, (a, b) in enumerate(zip(got, exp)) if a != b), min(len(got), len(exp)))
            problems.append('body of %s: statement %d differs from the doctest source (%d statements emitted, %d in the doctest)' % (f.name, k, len(got), len(exp)))
        end = funcs[fi + 1].lineno - 1 if fi + 1 < len(funcs) else len(tlines)
        seg = '\n'.join(tlines[f.lineno - 1:end])
        for w in wants.values():
            for wl in w.split('\n'):
                if ('# ' + wl) not in seg:
                    problems.append('want line %r of %s is not preserved as a comment' % (wl, name))
                    break
    return problems


def _worker(job):
    tmp, idx, seed = job
    import random
    from xdoctest import core
    rng = random.Random(seed)
    src, docs = gen_module(rng, idx)
    modname = 'xdverif_c19_m%d' % idx
    path = os.path.join(tmp, modname + '.py')
    # every seventh module is saved with a byte-order mark, every eleventh with CRLF line ends (what editors on Windows write)
    with open(path, 'w', encoding='utf-8-sig' if idx % 7 == 3 else 'utf-8', newline='\r\n' if idx % 11 == 5 else None) as f:
        f.write(src)
    try:
        text = dump_impl(path)
    except BaseException as e:      # noqa
        return (src, None, ['dump raised %s: %s' % (type(e).__name__, str(e)[:200])], None)
    text = text.rstrip('\n')
    # the enabled doctests (is_disabled ones are left out by `dump` too)
    with warnings.catch_warnings():
        warnings.simplefilter('ignore')
        so = sys.stdout
        sys.stdout = open(os.devnull, 'w')
        try:
            exs = [e for e in core.parse_doctestables(path, style='auto', analysis='static')]
        finally:
            sys.stdout.close()
            sys.stdout = so
    enabled = [e for e in exs if not e.is_disabled()]      # the implementation's own view: used for the model request only
    # by construction every generated doctest is enabled (none starts with a force-disable comment; comments with such
    # words on later lines, +SKIP directives and fully skipped doctests do not disable)
    problems = check_dump(text, docs, modname)
    # model request: header lines are the pyflakes oracle (read back from the real output)
    des = []
    funcs_text = text.split('\n\n\ndef ')
    for e, ftxt in zip(enabled, funcs_text):
        hdr = [l[4:] for l in ftxt.split('\n') if l.startswith('    from %s import ' % modname)]
        fname = 'test_' + e.modname.replace('.', '_') + '_' + e.callname.replace('.', '_')
        des.append([fname, e.node, hdr, [runmodel.part_data(p) for p in e._parts]])
    for k in [k for k in sys.modules if k.startswith('xdverif_c19_')]:
        del sys.modules[k]
    return (src, text, problems, ('dump_module', des))


COLLISION_MODULES = [
    # a method and a module-level function whose names differ only by '.' vs '_'
    "class Vec(object):\n    def norm(self):\n        \"\"\"\n        >>> m1 = 'method doctest'\n        \"\"\"\n\n"
    "def Vec_norm():\n    \"\"\"\n    >>> m2 = 'function doctest'\n    \"\"\"\n",
    # the second doctest of one callable and the first doctest of a callable with a numbered name
    "def step():\n    \"\"\"\n    Example:\n        >>> m1 = 'step block 0'\n\n    Example:\n        >>> m2 = 'step block 1'\n    \"\"\"\n\n"
    "def step_1():\n    \"\"\"\n    >>> m3 = 'step_1 block 0'\n    \"\"\"\n",
    "def a():\n    \"\"\"\n    Example:\n        >>> m1 = 1\n\n    Example:\n        >>> m2 = 2\n\n    Example:\n        >>> m3 = 3\n    \"\"\"\n\n"
    "def a_2():\n    \"\"\"\n    >>> m4 = 4\n    \"\"\"\n\ndef a_1_x():\n    \"\"\"\n    >>> m5 = 5\n    \"\"\"\n",
]


def collision_modules(ctx, tmp):
    """modules whose doctests get similar generated names: still one test function per doctest, every statement kept"""
    import re as _re
    for n, src in enumerate(COLLISION_MODULES):
        path = os.path.join(tmp, 'xdverif_c19_col%d.py' % n)
        open(path, 'w').write(src)
        ctx.evaluations += 1
        try:
            text = dump_impl(path)
            tree = ast.parse(text)
        except BaseException as e:      # noqa
            ctx.violation('dump-invalid', {'what': 'dump of a module with similar callable names: %s: %s' % (type(e).__name__, str(e)[:200]), 'module_source': src,
                          'theorem_or_correspondence': 'C19 predicates on runner.doctest_module(dump)'}, True)
            continue
        markers = _re.findall(r'>>> (m\d+) = ', src)
        funcs = [x for x in tree.body if isinstance(x, ast.FunctionDef)]
        assigned = [t.id for f in funcs for st in f.body if isinstance(st, ast.Assign) for t in st.targets if isinstance(t, ast.Name)]
        problems = []
        if len(funcs) != len(markers):
            problems.append('%d test functions for %d doctests' % (len(funcs), len(markers)))
        if sorted(assigned) != sorted(markers):
            problems.append('statements kept %r, the doctests hold %r' % (sorted(assigned), sorted(markers)))
        if problems:
            ctx.violation('dump-invalid', {'what': 'module with similar callable names: ' + '; '.join(problems), 'module_source': src, 'dump': text[:2000],
                          'theorem_or_correspondence': 'C19 predicates on runner.doctest_module(dump)'}, True)
    for k in [k for k in sys.modules if k.startswith('xdverif_c19_col')]:
        del sys.modules[k]


def run(ctx):
    tmp = tempfile.mkdtemp(prefix='xdverif_c19_')
    try:
        n = 300 if ctx.tier == 'quick' else 6000
        jobs = [(tmp, i, ctx.seed * 100003 + i) for i in range(n)]
        results = common.pmap(_worker, jobs, chunksize=8)
        collision_modules(ctx, tmp)
        reqs = [r[3] for r in results if r[3] is not None]
        ans = []
        for i in range(0, len(reqs), 500):
            ans += common.model_batch(reqs[i:i + 500])
        it = iter(ans)
        nv = {'c': 0, 'p': 0}
        for src, text, problems, req in results:
            ctx.evaluations += 1
            if ' import *' in src:
                ctx.count('modules with star imports')
            ctx.nontrivial += 1
            if req is not None:
                a = next(it)
                if a != text:
                    ctx.corr_failures.append(src)
                    if nv['c'] < 4:
                        nv['c'] += 1
                        la, lt = (a.split('\n') if isinstance(a, str) else []), text.split('\n')
                        k = next((i for i, (x, y) in enumerate(zip(la, lt)) if x != y), min(len(la), len(lt)))
                        ctx.violation('dump-correspondence', {'what': 'dump output differs from the model at line %d: impl %r model %r' % (
                            k, lt[k] if k < len(lt) else None, la[k] if k < len(la) else None), 'module_source': src,
                            'theorem_or_correspondence': 'correspondence dump_module (feeds C19_body_lines, C19_block_indented)'}, bool(problems))
            if problems and nv['p'] < 5:
                nv['p'] += 1
                ctx.violation('dump-invalid', {'what': '; '.join(problems)[:1200], 'module_source': src, 'dump': (text or '')[:3000],
                              'theorem_or_correspondence': 'C19 predicates on runner.doctest_module(dump)'}, True)
    finally:
        shutil.rmtree(tmp, ignore_errors=True)
    ctx.add_rule('%d generated modules of 1..6 doctests from the program generator (25 statement kinds; multi-line statements, decorators, triple-quoted strings, '
                 'wants of several lines, comments, directives, google blocks) plus star imports (single, two adjacent, separated): dump text vs model; '
                 'ast.parse, one FunctionDef per enabled doctest, statement-by-statement comparison with the de-prompted source, wants as comments' % n)
    ctx.sample({'module_source': results[0][0][-900:]})
    ctx.assumptions += ['the `from <module> import <names>` header line is decided by pyflakes (oracle, read back from the output)',
                        'syntactic validity is decided by CPython\'s parser (ast.parse), not by a theorem']


def replay(path):
    d = json.load(open(path))
    tmp = tempfile.mkdtemp(prefix='xdverif_c19r_')
    try:
        p = os.path.join(tmp, 'xdverif_c19_replay.py')
        open(p, 'w').write(d['module_source'])
        text = dump_impl(p).rstrip('\n')
        try:
            ast.parse(text)
            ok = True
        except SyntaxError as e:
            ok = False
            print('dump is not valid Python:', e)
        print(text[:2000])
        if not ok or d['kind'] in ('dump-invalid', 'dump-correspondence'):
            print('VIOLATION property=C19 replay=%s' % path)
            return 1
    finally:
        shutil.rmtree(tmp, ignore_errors=True)
        for k in [k for k in sys.modules if k.startswith('xdverif_c19_')]:
            del sys.modules[k]
    return 0
