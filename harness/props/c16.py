"""C16 — Static and dynamic analysis find the same doctests.

Theorems: Props/C16.v (on syntax trees whose module-level definitions carry dot-free names bound once, the
dynamic collection of the module produced by executing the tree equals the static collection: same callables,
identifiers, order and docstrings; refuted without that hypothesis).
Correspondence: parse_dynamic_calldefs on generated importable modules vs the extracted dyn_module fed with the
real ast (keys and docstrings), and parse_static_calldefs vs visit_module.
Search (model independent): core.parse_doctestables(style, analysis='static') vs analysis='dynamic' on the same
generated module (functions, async functions, classes, static/class methods, properties with setters, decorators
built with functools.wraps in the same module and imported from a helper module, contextlib.contextmanager,
definitions inside if/try/with and in the else branch of the main guard, imported names): same identifiers with
the same doctest source for every style.
"""
import ast
import json
import os
import shutil
import sys
import tempfile
import warnings

from harness import common
from harness.common import Sym
from harness.props import c07

HELPER = '''
import functools

def logged(func):
    @functools.wraps(func)
    def wrapper(*args, **kwargs):
        return func(*args, **kwargs)
    return wrapper

def helper_func():
    """
    >>> print('helper: must not be collected through an import')
    """

class HelperClass(object):
    """
    >>> print('helper class')
    """
'''


def doc(rng, uid, indent):
    pad = ' ' * indent
    r = rng.random()
    if r < 0.15:
        return []
    if r < 0.25:
        return [pad + '"""prose only %d"""' % uid]
    if r < 0.6:
        return [pad + 'r"""', pad + 'Freeform %d.' % uid, '', pad + '>>> print(%d)' % uid, pad + '%d' % uid, pad + '"""']
    lines = [pad + 'r"""', pad + 'Google %d.' % uid, '']
    for b in range(rng.randint(1, 2)):
        lines += [pad + 'Example:', pad + '    >>> print(%d, %d)' % (uid, b), pad + '    %d %d' % (uid, b), '']
    lines.append(pad + '"""')
    return lines


def gen_module(rng, helper_name):
    uid = [0]

    def nid():
        uid[0] += 1
        return uid[0]
    L = ['import functools', 'import contextlib', 'import json', 'from os.path import join, dirname',
         'from %s import logged, helper_func, HelperClass' % helper_name, '',
         'def local_deco(func):', '    @functools.wraps(func)', '    def wrapper(*a, **k):', '        return func(*a, **k)', '    return wrapper', '']
    if rng.random() < 0.5:
        L = ['r"""', 'Module %d.' % nid(), '', '>>> print("module doc")', 'module doc', '"""'] + L

    defined = {'module': [], 'class': []}

    def func(indent, in_class):
        k = nid()
        pad = ' ' * indent
        out = []
        deco = rng.choice([None, None, 'local_deco', 'logged', 'contextlib.contextmanager'] + (['staticmethod', 'classmethod', 'property'] if in_class else []))
        if deco:
            out.append(pad + '@' + deco)
        is_async = deco is None and rng.random() < 0.2
        # some identifiers hold a non-ASCII letter; some are not written in NFKC form (the ligature U+FB01: `def \ufb01x3` defines fix3)
        name = ('f\xe5%d' if k % 6 == 1 else '\ufb01x%d' if k % 6 == 4 else 'f%d') % k
        scope = 'class' if in_class else 'module'
        if deco in (None, 'local_deco', 'logged') and defined[scope] and rng.random() < 0.15:
            # a redefinition of an earlier function of the same scope (conditional redefinition, overload stubs
            # followed by the implementation): the later definition is the one both analyses must report
            name = rng.choice(defined[scope])
        elif deco in (None, 'local_deco', 'logged'):
            defined[scope].append(name)
        # some definitions use the type-parameter syntax (def name[T](...)), also below decorators and with blanks around the brackets
        generic = rng.choice(['', '', '', '[T]', '[T: int, *Ts]', ' [T]', '[K, V] '])
        out.append(pad + ('async def ' if is_async else 'def ') + name + generic + '(*args):')
        out += doc(rng, k, indent + 4)
        if deco == 'contextlib.contextmanager':
            out.append(pad + '    yield')
        elif rng.random() < 0.3:
            out += [pad + '    def nested%d():' % k, pad + '        """', pad + '        >>> print("nested: never collected")', pad + '        """', pad + '        pass', pad + '    return None']
        else:
            out.append(pad + '    return None')
        if deco == 'property' and rng.random() < 0.6:
            out += [pad + '@%s.setter' % name, pad + 'def %s(self, value):' % name, pad + '    """', pad + '    >>> print("setter docstring %d")' % k, pad + '    """', pad + '    pass']
        return out

    def klass(indent):
        k = nid()
        pad = ' ' * indent
        defined['class'] = []
        out = [pad + 'class K%d(object):' % k] + doc(rng, k, indent + 4)
        for _ in range(rng.randint(0, 3)):
            out += func(indent + 4, True)
        if rng.random() < 0.3:
            out += [pad + '    class Inner(object):', pad + '        """', pad + '        >>> print("inner class: never collected")', pad + '        """', pad + '        def im(self):', pad + '            """', pad + '            >>> 1', pad + '            """']
        if rng.random() < 0.3:
            out += [pad + '    if True:'] + func(indent + 8, True)
        if rng.random() < 0.15:
            # every compound statement holds statements that run on import: a definition in a `case` block exists too
            out += [pad + '    match %d:' % k, pad + '        case %d:' % k] + func(indent + 12, True) + [pad + '        case _:', pad + '            pass']
        out.append(pad + '    attr%d = %d' % (k, k))
        return out

    def block(indent, depth):
        out = []
        for _ in range(rng.randint(1, 3)):
            r = rng.random()
            if r < 0.45 or depth > 1:
                out += func(indent, False)
            elif r < 0.7:
                out += klass(indent)
            else:
                pad = ' ' * indent
                kind = rng.choice(['if', 'try', 'with', 'mainelse', 'for', 'while', 'match', 'tryelse', 'notmain', 'notmain', 'tryredef'])
                if kind == 'if':
                    out += [pad + 'if True:'] + block(indent + 4, depth + 1)
                elif kind == 'tryredef':
                    # the optional-accelerator idiom: a definition in the try body, an import that fails behind it, the fallback of the SAME
                    # name in the handler - the handler's definition is the live one
                    k = nid()
                    out += [pad + 'try:', pad + '    def same%d():' % k, pad + '        """', pad + '        >>> print("fast path %d")' % k, pad + '        """',
                            pad + '    import xdverif_c16_missing_backend_%d' % k,
                            pad + 'except ImportError:', pad + '    def same%d():' % k, pad + '        """', pad + '        >>> print("fallback %d")' % k, pad + '        fallback %d' % k, pad + '        """',
                            pad + '    def only_fallback%d():' % k, pad + '        """', pad + '        >>> print(%d)' % k, pad + '        """']
                elif kind == 'notmain':
                    # the negated guard ("imported, not run as a script") and look-alikes of the script guard: their bodies DO run on import
                    test = rng.choice(["__name__ != '__main__'", "'__main__' != __name__", "__name__ not in ('__main__',)", "__name__ >= ''", "not __name__ == '__main__'"])
                    out += [pad + 'if %s:' % test] + block(indent + 4, depth + 1)
                elif kind == 'try':
                    out += [pad + 'try:'] + block(indent + 4, depth + 1) + [pad + 'except ImportError:', pad + '    pass']
                elif kind == 'with':
                    out += [pad + 'with contextlib.suppress(Exception):'] + block(indent + 4, depth + 1)
                elif kind == 'for':
                    out += [pad + 'for _i%d in (1,):' % nid()] + block(indent + 4, depth + 1)
                elif kind == 'while':
                    out += [pad + 'while True:'] + block(indent + 4, depth + 1) + [pad + '    break']
                elif kind == 'match':
                    out += [pad + 'match 1:', pad + '    case 1:'] + block(indent + 8, depth + 1) + [pad + '    case _:', pad + '        pass']
                elif kind == 'tryelse':
                    out += [pad + 'try:', pad + '    pass', pad + 'except ImportError:', pad + '    pass', pad + 'else:'] + block(indent + 4, depth + 1) + [pad + 'finally:'] + block(indent + 4, depth + 1)
                else:
                    out += [pad + "if __name__ == '__main__':", pad + '    def only_main%d():' % nid(), pad + '        """', pad + '        >>> print("main only")', pad + '        """', pad + 'else:'] + block(indent + 4, depth + 1)
        return out
    L += block(0, 0)
    if rng.random() < 0.25:
        # PEP 562 module attributes: what dir(module) / getattr(module, ...) answer is the module's business and must not
        # decide which definitions exist
        L += ['', '__all__ = ["local_deco"]', '', 'def __dir__():', '    return sorted(__all__)', '',
              'def __getattr__(name):', '    raise AttributeError(name)', '']
    return '\n'.join(L) + '\n'


def collect(path, style, analysis):
    from xdoctest import core
    with warnings.catch_warnings():
        warnings.simplefilter('ignore')
        so = sys.stdout
        sys.stdout = open(os.devnull, 'w')
        try:
            exs = list(core.parse_doctestables(path, style=style, analysis=analysis))
        finally:
            sys.stdout.close()
            sys.stdout = so
    return sorted((e.unique_callname, e.docsrc) for e in exs)


def _worker(job):
    tmp, idx, seed = job
    import random
    from xdoctest import static_analysis, dynamic_analysis
    rng = random.Random(seed)
    d = os.path.join(tmp, 'p%d' % idx)
    os.makedirs(d)
    helper = 'xdverif_c16_helper_%d' % idx
    open(os.path.join(d, helper + '.py'), 'w').write(HELPER)
    src = gen_module(rng, helper)
    if idx % 4 == 3:
        # remarks that merely BEGIN like a PEP 484 type comment, where no type comment can stand (a line of their own in front of a
        # definition, behind a class header): comments to the interpreter, whatever they say
        import re as _re
        src = _re.sub(r'(?m)^(def |class |async def )', "# type: a remark about the layout of what follows, not a type\n\\1", src, count=2)
        src = _re.sub(r'(?m)^(class \w+[^\n]*:)$', '\\1  # type: a container, see above', src, count=1)
    modname = 'xdverif_c16_m%d' % idx
    path = os.path.join(d, modname + '.py')
    # how the file is saved: plain UTF-8, with a byte-order mark (editors on Windows write it), with CRLF line ends, with a coding cookie
    # ... or in another encoding that the file declares (PEP 263), with text in a doctest that is spelled differently in it
    saved = ['plain', 'plain', 'bom', 'crlf', 'bom+crlf', 'cookie', 'latin-1', 'cp1252', 'iso-8859-15+crlf'][idx % 9]
    codec = 'utf-8-sig' if 'bom' in saved else 'utf-8'
    if saved.split('+')[0] in ('latin-1', 'cp1252', 'iso-8859-15'):
        codec = saved.split('+')[0]
        word = {'latin-1': 'caf\xe9 \xfc\xdf', 'cp1252': '\u20ac5 \u201cquoted\u201d', 'iso-8859-15': '\u20ac5 \u0153uvre'}[codec]
        extra = 'def encoded_text_%d():\n    \"\"\"\n    >>> print(%r)\n    %s\n    \"\"\"\n' % (idx, word, word)
        try:
            ('# -*- coding: %s -*-\n' % codec + src + extra).encode(codec)
            src = '# -*- coding: %s -*-\n' % codec + src + '\n' + extra
        except UnicodeEncodeError:
            # (the generated identifiers hold a letter outside that code page: saved as UTF-8 with its cookie instead)
            codec, saved = 'utf-8', 'cookie'
    if saved == 'cookie':
        src = '# -*- coding: utf-8 -*-\n' + src
    with open(path, 'w', encoding=codec, newline='\r\n' if 'crlf' in saved else None) as f:
        f.write(src)
    problems = []
    sys.path.insert(0, d)
    try:
        for style in ('freeform', 'google', 'auto'):
            try:
                st = collect(path, style, 'static')
                dy = collect(path, style, 'dynamic')
            except Exception as e:
                problems.append('collection raised %s: %s' % (type(e).__name__, str(e)[:200]))
                break
            if st != dy:
                only_s = [k for k, _ in st if k not in dict(dy)]
                only_d = [k for k, _ in dy if k not in dict(st)]
                diff = [k for k, v in st if k in dict(dy) and dict(dy)[k] != v]
                problems.append('style %s: only static %r, only dynamic %r, different source %r' % (style, only_s[:6], only_d[:6], diff[:4]))
        # model side
        tree = ast.parse(src)
        docs = []
        md = ast.get_docstring(tree, clean=False)
        moddoc = None
        if md:
            docs.append(md)
            moddoc = common.some(0)
        body = [c07.to_tree(c, docs) for c in tree.body]
        with warnings.catch_warnings():
            warnings.simplefilter('ignore')
            dyn = dynamic_analysis.parse_dynamic_calldefs(path)
        impl_dyn = sorted((k, v.docstr) for k, v in dyn.items() if v.docstr is not None)
    finally:
        sys.path.remove(d)
        for k in [k for k in sys.modules if k.startswith('xdverif_c16_')]:
            del sys.modules[k]
    return dict(src=src, problems=problems, req=('dyn_module', moddoc, body), docs=docs, impl_dyn=impl_dyn)


def run(ctx):
    tmp = tempfile.mkdtemp(prefix='xdverif_c16_')
    try:
        n = 400 if ctx.tier == 'quick' else 8000
        jobs = [(tmp, i, ctx.seed * 104729 + i) for i in range(n)]
        results = common.pmap(_worker, jobs, chunksize=10)
        ans = []
        for i in range(0, len(results), 300):
            ans += common.model_batch([r['req'] for r in results[i:i + 300]])
        nv = {'c': 0, 'p': 0}
        for r, a in zip(results, ans):
            ctx.evaluations += 1
            if len(r['impl_dyn']) > 3:
                ctx.nontrivial += 1
            model = sorted((k, r['docs'][v[1]]) for k, v in a if isinstance(v, list))
            if model != r['impl_dyn']:
                ctx.corr_failures.append(r['src'])
                if nv['c'] < 4:
                    nv['c'] += 1
                    mk, ik = [k for k, _ in model], [k for k, _ in r['impl_dyn']]
                    ctx.violation('dynamic-correspondence', {'what': 'parse_dynamic_calldefs (documented callables) %r, dyn_module %r' % (
                        [k for k in ik if k not in mk] or ik[:10], [k for k in mk if k not in ik] or mk[:10]), 'module_source': r['src'],
                        'theorem_or_correspondence': 'correspondence iter_module_doctestables/dyn_module (feeds C16_same_callables_and_docstrings)'}, bool(r['problems']))
            if r['problems'] and nv['p'] < 5:
                nv['p'] += 1
                ctx.violation('static-vs-dynamic', {'what': '; '.join(r['problems'])[:1500], 'module_source': r['src'], 'helper_source': HELPER,
                              'theorem_or_correspondence': 'C16 on core.parse_doctestables(analysis=static|dynamic)'}, True)
    finally:
        shutil.rmtree(tmp, ignore_errors=True)
    ctx.add_rule('%d generated importable modules (functions, async functions, classes, static/class methods, properties with same-name setters, functools.wraps '
                 'decorators local and imported from a helper module, contextlib.contextmanager, definitions in if/try/with and in the else branch of the main guard, '
                 'nested definitions, imported names, functions and methods defined twice) x styles; class names bound once; non-trivial = more than 3 documented callables' % n)
    ctx.sample({'module_source': results[0]['src'][:1200]})
    ctx.assumptions += ['Ordinary: no class name is bound again and every branch holding a definition is taken (generator invariant); functions and methods may be defined twice',
                        'Python\'s evaluation of def/class statements is modelled by the abstract evaluation of Model/DynCollect.v']


def replay(path):
    d = json.load(open(path))
    tmp = tempfile.mkdtemp(prefix='xdverif_c16r_')
    try:
        helper = 'xdverif_c16_helper_r'
        src = d['module_source']
        import re
        m = re.search(r'from (xdverif_c16_helper_\d+) import', src)
        hname = m.group(1) if m else helper
        open(os.path.join(tmp, hname + '.py'), 'w').write(HELPER)
        p = os.path.join(tmp, 'xdverif_c16_replay.py')
        open(p, 'w').write(src)
        sys.path.insert(0, tmp)
        bad = False
        try:
            for style in ('freeform', 'google', 'auto'):
                st, dy = collect(p, style, 'static'), collect(p, style, 'dynamic')
                print(style, 'static', [k for k, _ in st], 'dynamic', [k for k, _ in dy])
                bad = bad or st != dy
        finally:
            sys.path.remove(tmp)
        if bad or d['kind'] == 'dynamic-correspondence':
            print('VIOLATION property=C16 replay=%s' % path)
            return 1
        return 0
    finally:
        shutil.rmtree(tmp, ignore_errors=True)
