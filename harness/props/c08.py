"""C08 — Reported line numbers point at the real lines of the source file.

Theorems: Props/C08.v (the docstring-start workaround finds the opening line of a triple-quoted literal; google
offsets are positions; google / freeform doctest line numbers; failed_lineno = lineno + offset of the failing line).
Correspondence: _find_docstr_startpos_workaround, the freeform curr_offset and the google lineno on generated
layouts vs the extracted model.
Search (model independent): generated module layouts (blank lines, decorators, class/method nesting, docstring
opening alone or sharing its line with text, six quote/prefix styles, google blocks with or without leading prose,
freeform groups separated by prose, skipped blocks, preceding multi-line statements and wants) x kind and position of
the failing statement; every generated source line carries a unique marker, and the file is read at the reported
lines: lineno + first part offset must hold the first prompt, lineno + line_offset the part's first line,
failed_lineno() the raising line / the doctest line calling failing code / the first line of the offending want.
"""
import json
import os
import re
import shutil
import sys
import tempfile
import warnings

from harness import common
from harness.common import Sym

QUOTES = ['"""', "'''", 'r"""', "R'''", 'u"""', "U'''"]
SKIPHDR = ['Ignore:', 'Script:', 'DisableDoctest:', 'Benchmark:']


class Layout:
    """builds a module source; remembers, per doctest, what must be found where"""

    def __init__(self, rng):
        self.rng = rng
        self.k = 0

    def mark(self):
        self.k += 1
        return 'L%d' % self.k

    def statements(self, fail):
        """doctest lines (unindented): list of (text, role) where role in
        first-prompt / part-first / raise / call / want-first / other"""
        rng = self.rng
        out = []
        n = rng.randint(1, 4)
        failpos = rng.randrange(n) if fail else None
        for i in range(n):
            if rng.random() < 0.2:
                out += [('>>>', 'src')]            # a bare prompt used as spacing (an empty source line of the part)
            if i == failpos:
                if fail == 'raise_multiline':
                    out += [('>>> z = [1,  # %s' % self.mark(), 'src'), ('...      1 // 0,  # %s' % self.mark(), 'fail'), ('...      3]  # %s' % self.mark(), 'src')]
                elif fail == 'raise':
                    out += [('>>> raise ValueError("boom")  # %s' % self.mark(), 'fail')]
                elif fail == 'call':
                    out += [('>>> q = 1  # %s' % self.mark(), 'src'), ('>>> failing_helper()  # %s' % self.mark(), 'fail')]
                elif fail == 'call_in_block':
                    out += [('>>> for i in range(1):  # %s' % self.mark(), 'src'), ('...     y = i  # %s' % self.mark(), 'src'), ('...     failing_helper()  # %s' % self.mark(), 'fail')]
                elif fail == 'raise_try_finally':
                    out += [('>>> try:  # %s' % self.mark(), 'src'), ('...     raise ValueError("boom")  # %s' % self.mark(), 'fail'),
                            ('... finally:  # %s' % self.mark(), 'src'), ('...     cleanup = 1  # %s' % self.mark(), 'src'), ('...     cleanup = 2  # %s' % self.mark(), 'src')]
                elif fail == 'raise_in_with':
                    out += [('>>> import contextlib  # %s' % self.mark(), 'src'), ('>>> with contextlib.suppress(KeyError):  # %s' % self.mark(), 'src'),
                            ('...     x = 1  # %s' % self.mark(), 'src'), ('...     raise ValueError("boom")  # %s' % self.mark(), 'fail'), ('...     y = 2  # %s' % self.mark(), 'src')]
                elif fail == 'raise_reraise':
                    out += [('>>> try:  # %s' % self.mark(), 'src'), ('...     1 / 0  # %s' % self.mark(), 'fail'),
                            ('... except ZeroDivisionError:  # %s' % self.mark(), 'src'), ('...     z = 0  # %s' % self.mark(), 'src'), ('...     raise  # %s' % self.mark(), 'src')]
                elif fail == 'raise_foreign_lineno':
                    # the exception object carries a `lineno` of its own, about some OTHER text (a SyntaxError from compile(), a
                    # JSON / XML parse error): the failing line is still the doctest line that raised
                    out += [('>>> q = 1  # %s' % self.mark(), 'src'), ('>>> r = 2  # %s' % self.mark(), 'src'),
                            (rng.choice(['>>> compile("1 +", "<cfg>", "eval")  # %s', '>>> __import__("json").loads("{bad")  # %s',
                                         '>>> raise SyntaxError("x", ("f.cfg", 1, 1, "x"))  # %s']) % self.mark(), 'fail')]
                elif fail == 'call_doctest_helper':
                    # the failing code was DEFINED by the doctest itself (its frames carry the doctest's file name too): the
                    # failing line is still the statement of the doctest that called it
                    out += [('>>> def own_helper(v):  # %s' % self.mark(), 'src'), ('...     w = v  # %s' % self.mark(), 'src'),
                            ('...     raise KeyError(w)  # %s' % self.mark(), 'src'), ('>>> q = 1  # %s' % self.mark(), 'src'),
                            (rng.choice(['>>> own_helper(3)  # %s', '>>> r = [own_helper(v) for v in (1, 2)]  # %s', '>>> sorted([3, 1], key=own_helper)  # %s']) % self.mark(), 'fail')]
                elif fail == 'call_doctest_lambda':
                    out += [('>>> inv = lambda v: 1 // v  # %s' % self.mark(), 'src'), ('>>> zs = list(map(inv, (1, 0)))  # %s' % self.mark(), 'fail')]
                elif fail == 'call_doctest_method_multiline':
                    out += [('>>> class Own:  # %s' % self.mark(), 'src'), ('...     def go(self):  # %s' % self.mark(), 'src'), ('...         return self.missing  # %s' % self.mark(), 'src'),
                            ('>>> z = [1,  # %s' % self.mark(), 'src'), ('...      Own().go(),  # %s' % self.mark(), 'fail'), ('...      3]  # %s' % self.mark(), 'src')]
                elif fail == 'raise_stored':
                    # an exception that an earlier statement caught and kept is raised by a later one
                    out += [('>>> try:  # %s' % self.mark(), 'src'), ('...     1 / 0  # %s' % self.mark(), 'src'), ('... except ZeroDivisionError as ex:  # %s' % self.mark(), 'src'),
                            ('...     kept = ex  # %s' % self.mark(), 'src'), ('>>> q = 1  # %s' % self.mark(), 'src'), ('>>> raise kept  # %s' % self.mark(), 'fail')]
                elif fail == 'gotwant':
                    m = self.mark()
                    out += [('>>> print("right %s")' % m, 'src'), ('WRONG %s' % m, 'fail'), ('second want line %s' % m, 'want')]
                elif fail == 'gotwant_after_bare_terminator':
                    # the classic way to close a compound statement: a bare '...' line in front of the expected output
                    m = self.mark()
                    out += [('>>> for i in range(1):  # %s' % self.mark(), 'src'), ('...     print("x %s")' % m, 'src'), ('...', 'src'), ('WRONG %s' % m, 'fail'), ('more want %s' % m, 'want')]
                elif fail == 'gotwant_after_bare_prompt':
                    m = self.mark()
                    out += [('>>> print("right %s")' % m, 'src'), ('>>>', 'src'), ('WRONG %s' % m, 'fail')]
                elif fail == 'gotwant_after_multiline':
                    m = self.mark()
                    out += [('>>> print("a %s",' % m, 'src'), ('...       "b")', 'src'), ('WRONG %s' % m, 'fail')]
                continue
            r = rng.random()
            if r < 0.12:
                # a completely empty line inside an open bracket (it is a line of the file like any other)
                out += [('>>> e%d = [%d,  # %s' % (i, i, self.mark()), 'src'), ('', 'src'), ('...      0]  # %s' % self.mark(), 'src')]
            elif r < 0.4:
                out += [('>>> a%d = %d  # %s' % (i, i, self.mark()), 'src')]
            elif r < 0.7:
                m = self.mark()
                out += [('>>> print("out %s")' % m, 'src'), ('out %s' % m, 'want')]
            else:
                out += [('>>> b%d = [%d,  # %s' % (i, i, self.mark()), 'src'), ('...      0]  # %s' % self.mark(), 'src')]
        return out

    def docstring(self, indent, fail):
        """lines of the docstring body (already indented) and expectations"""
        rng = self.rng
        pad = ' ' * indent
        style = rng.choice(['freeform', 'freeform_prose', 'google', 'google_prose', 'skipped_first'])
        lines = []
        # blank lines right behind the opening quotes (0..3), before anything else
        self.leading_blank = rng.choice([0, 0, 0, 1, 2, 3])
        lines += [''] * self.leading_blank
        if style in ('freeform_prose', 'google_prose', 'skipped_first'):
            lines += [pad + 'Summary line %s.' % self.mark(), '']
            if rng.random() < 0.5:
                lines += [pad + 'More prose.', pad + 'Even more.', '']
            if rng.random() < 0.3:
                # prose that holds characters which str.splitlines() treats as line ends but the file does not: a page break on a
                # line of its own, a separator pasted into a sentence, a next-line character at the end of one
                lines += [pad + rng.choice(['\x0c', 'Part two.\x0c', 'pasted \u2028 text', 'ends with nel\x85', 'a \x1c b \x1d c', '\x0b'])] + ['']
        if style == 'skipped_first':
            hdr = rng.choice(SKIPHDR)
            lines += [pad + hdr, pad + '    >>> print("skipped %s")' % self.mark(), pad + '    skipped', pad + '    >>> 1 + 1', pad + '    2', '']
        stm = self.statements(fail)
        body_pad = pad
        if style.startswith('google'):
            lines += [pad + rng.choice(['Example:', 'Doctest:'])]
            body_pad = pad + '    '
            if style == 'google_prose' and rng.random() < 0.5:
                lines += [body_pad + 'prose inside the block %s' % self.mark(), '']
        lines += [(body_pad + t) if t else '' for t, _ in stm]
        if rng.random() < 0.4:
            lines += ['', pad + 'Trailing prose.']
        return lines, stm, style


HELPER = 'def failing_helper():\n    x = 1\n    raise KeyError("from helper")\n\n'
FAILS = [None, 'raise', 'raise_multiline', 'call', 'call_in_block', 'gotwant', 'gotwant_after_multiline',
         'raise_try_finally', 'raise_in_with', 'raise_reraise', 'raise_foreign_lineno', 'gotwant_after_bare_terminator', 'gotwant_after_bare_prompt',
         'call_doctest_helper', 'call_doctest_lambda', 'call_doctest_method_multiline', 'raise_stored']


def gen_module(rng):
    L = Layout(rng)
    src = [HELPER.rstrip('\n'), '']
    src += [''] * rng.randint(0, 3)
    expectations = []
    for j in range(rng.randint(1, 3)):
        fail = rng.choice(FAILS)
        in_class = rng.random() < 0.4
        indent = 4 if in_class else 0
        pad = ' ' * indent
        if in_class:
            src += ['class K%d(object):' % j, '', pad + 'attr = %d' % j, '']
        for _ in range(rng.randint(0, 2)):
            src.append(pad + '@deco')
        src.append(pad + 'def f%d(*a):' % j)
        q = rng.choice(QUOTES)
        dlines, stm, style = L.docstring(indent + 4, fail)
        dpad = pad + '    '
        closing = q[-3:]
        if rng.random() < 0.5 and dlines[0].strip() and not dlines[0].lstrip().startswith('>>>'):
            # opening quotes share their line with the first line of text (a prompt directly behind the quotes
            # has no indentation while the following lines have: that layout falls into known finding F8b of C13)
            src.append(dpad + q + dlines[0].lstrip())
            src += dlines[1:]
        else:
            src.append(dpad + q)
            src += dlines
        if rng.random() < 0.5:
            src.append(dpad + closing)
        else:
            src[-1] = src[-1] + closing if src[-1].strip() and not src[-1].rstrip().endswith(closing) else dpad + closing
            if not src[-1].rstrip().endswith(closing):
                src.append(dpad + closing)
        src += [pad + '    return None', '']
        src += [''] * rng.randint(0, 2)
        if rng.random() < 0.35:
            # characters that str.splitlines() treats as line boundaries but the Python tokenizer does not: a form feed on a line of
            # its own (a page break), separators inside comments and string literals.  They do not end a line of the file
            src += [rng.choice(['\x0c', '# page\x0cbreak', '# sep \u2028 inside a comment', 'SEP%d = "a\x1cb\x85c"' % j, '\x0c# after a form feed', '# vt \x0b tab',
                               # ... and the one character that DOES end a line although it is not a newline: a bare carriage return
                               '# a line an old Mac editor ended\rMAC%d = 1' % j, 'CR%d = 0\r' % j])]
        expectations.append((('K%d.' % j if in_class else '') + 'f%d' % j, fail, stm, style))
    src.insert(0, 'def deco(f):\n    return f\n')
    text = '\n'.join(src) + '\n'
    if rng.random() < 0.12:
        # the whole module indented with TAB characters, docstrings included (one per level)
        text = '\n'.join('\t' * ((len(l) - len(l.lstrip(' '))) // 4) + ' ' * ((len(l) - len(l.lstrip(' '))) % 4) + l.lstrip(' ') for l in text.split('\n'))
    return text, expectations


def marker_of(text):
    m = re.search(r'(L\d+)', text)
    return m.group(1) if m else None


def check_example(ex, flines, fail, stm):
    problems = []
    def fline(n):
        return flines[n - 1] if 0 < n <= len(flines) else None
    parts = ex._parts
    if not parts:
        return ['no parts']
    first = ex.lineno + parts[0].line_offset
    fp = fline(first)
    if fp is None or parts[0].orig_lines[0].strip() not in fp:
        problems.append('lineno + first part offset = %d holds %r, the first prompt is %r' % (first, fp, parts[0].orig_lines[0]))
    for p in parts:
        got = fline(ex.lineno + p.line_offset)
        if got is None or p.orig_lines[0].strip() not in got:
            problems.append('lineno + line_offset = %d holds %r, the part starts with %r' % (ex.lineno + p.line_offset, got, p.orig_lines[0]))
    so = sys.stdout
    try:
        with warnings.catch_warnings():
            warnings.simplefilter('ignore')
            s = ex.run(on_error='return', verbose=0)
    finally:
        sys.stdout = so
    if fail is None:
        if not s['passed']:
            problems.append('a doctest without a planted failure did not pass (%s)' % (type(s['exc_info'][1]).__name__ if s['exc_info'] else None))
        return problems
    if not s['failed']:
        problems.append('planted failure %s did not fail' % fail)
        return problems
    n = ex.failed_lineno()
    target = [t for t, role in stm if role == 'fail'][0]
    got = fline(n)
    if got is None or target.strip() not in got:
        problems.append('failed_lineno() = %r holds %r; the failing line (%s) is %r' % (n, got, fail, target))
    return problems


def _worker(job):
    tmp, idx, seed = job
    import random
    from xdoctest import core, static_analysis
    rng = random.Random(seed)
    src, expectations = gen_module(rng)
    try:
        compile(src, 'm', 'exec')
    except SyntaxError as e:
        return dict(src=src, harness_error=str(e))
    modname = 'xdverif_c08_m%d' % idx
    path = os.path.join(tmp, modname + '.py')
    open(path, 'w').write(src)
    flines = re.split('\r\n|\r|\n', src)       # the lines of the file as Python and editors count them
    problems = []
    reqs = []
    checks = []
    by_name = {e[0]: e for e in expectations}
    for style in ('freeform', 'google'):
        with warnings.catch_warnings():
            warnings.simplefilter('ignore')
            so = sys.stdout
            sys.stdout = open(os.devnull, 'w')
            try:
                exs = list(core.parse_doctestables(path, style=style, analysis='static'))
            except Exception as e:      # noqa
                problems.append('collecting the doctests of the module (%s style) raised %s: %s' % (style, type(e).__name__, str(e)[:200]))
                exs = []
            finally:
                sys.stdout.close()
                sys.stdout = so
        found = set()
        for ex in exs:
            if ex.callname not in by_name:
                continue
            name, fail, stm, dstyle = by_name[ex.callname]
            found.add(name)
            for pr in check_example(ex, flines, fail, stm):
                problems.append('%s (%s style, docstring layout %s): %s' % (name, style, dstyle, pr))
        for name, fail, stm, dstyle in expectations:
            if name not in found and not (style == 'google' and not dstyle.startswith('google')):
                problems.append('%s: not collected in %s style' % (name, style))
    # correspondence: docstring start and freeform / google line numbers
    import ast
    tree = ast.parse(src)
    vis = static_analysis.TopLevelVisitor.__new__(static_analysis.TopLevelVisitor)
    try:
        calldefs = static_analysis.parse_static_calldefs(fpath=path)
    except Exception as e:      # noqa
        problems.append('the static analysis of the module raised %s: %s' % (type(e).__name__, str(e)[:200]))
        return dict(src=src, problems=problems, reqs=reqs, checks=checks, gen_seed=seed)
    for node in ast.walk(tree):
        if isinstance(node, (ast.FunctionDef,)) and ast.get_docstring(node, clean=False) is not None and node.name.startswith('f'):
            docnode = node.body[0]
            docstr = docnode.value.value
            endpos = docnode.end_lineno - 1
            start, stop = vis._find_docstr_startpos_workaround(docstr, flines, endpos)
            endline = flines[endpos]
            cand = endpos + 1 - docstr.count('\n') - 1
            def ends(trip):
                return re.sub(re.escape(trip) + r'\s*#.*$', trip, endline).strip().endswith(trip)
            def starts(trip):
                try:
                    return flines[cand].strip().lower().startswith((trip, 'r' + trip, 'u' + trip))
                except IndexError:
                    return False
            reqs.append(('find_docstr_start', endpos, docstr.count('\n'), ends("'''"), ends('"""'), starts("'''"), starts('"""')))
            checks.append(('start', node.name, start))
            if start + 1 != docnode.lineno:
                problems.append('docstring of %s reported to start on line %d, the literal opens on line %d' % (node.name, start + 1, docnode.lineno))
    sys.modules.pop(modname, None)
    return dict(src=src, problems=problems, reqs=reqs, checks=checks, gen_seed=seed)


def rewrite_same_path(ctx, tmp):
    """a file that is edited and collected again in the same process (an editor save, a watch loop): the lines reported are those of the
    file as it is NOW - also when the new text has the same size and the same modification second as the old one"""
    import random
    from xdoctest import core
    nbad = 0
    for i in range(40 if ctx.tier == 'quick' else 600):
        rng = random.Random(ctx.seed * 7907 + i)
        src, expectations = gen_module(rng)
        try:
            compile(src, 'm', 'exec')
        except SyntaxError:
            continue
        moved = '# a comment that an edit moves from the last line to the first\n'
        src_a, src_b = src + moved, moved + src
        path = os.path.join(tmp, 'xdverif_c08_rw%d.py' % i)
        open(path, 'w').write(src_a)
        st = os.stat(path)
        so = sys.stdout
        try:
            sys.stdout = open(os.devnull, 'w')
            with warnings.catch_warnings():
                warnings.simplefilter('ignore')
                list(core.parse_doctestables(path, style='freeform', analysis='static'))
                open(path, 'w').write(src_b)
                os.utime(path, ns=(st.st_atime_ns, st.st_mtime_ns))
                exs = list(core.parse_doctestables(path, style='freeform', analysis='static'))
        finally:
            sys.stdout.close()
            sys.stdout = so
        sys.modules.pop('xdverif_c08_rw%d' % i, None)
        flines = re.split('\r\n|\r|\n', src_b)
        by_name = {e[0]: e for e in expectations}
        problems = []
        for ex in exs:
            if ex.callname in by_name:
                name, fail, stm, dstyle = by_name[ex.callname]
                problems += ['%s after the file was rewritten (same size, same second): %s' % (name, pr) for pr in check_example(ex, flines, fail, stm)]
        ctx.evaluations += 1
        if problems and nbad < 3:
            nbad += 1
            ctx.violation('line-numbers', {'what': '; '.join(problems)[:1500], 'module_source': src_b, 'first_version': src_a, 'rewrite': True,
                          'theorem_or_correspondence': 'C08: the file read at the reported lines, after a rewrite of the same path'}, True)
    ctx.count('rewritten_modules', 40 if ctx.tier == 'quick' else 600)


def run(ctx):
    tmp = tempfile.mkdtemp(prefix='xdverif_c08_')
    try:
        n = 700 if ctx.tier == 'quick' else 15000
        jobs = [(tmp, i, ctx.seed * 15485863 + i) for i in range(n)]
        results = common.pmap(_worker, jobs, chunksize=10)
        allreqs = [q for r in results if 'reqs' in r for q in r['reqs']]
        ans = []
        for i in range(0, len(allreqs), 4000):
            ans += common.model_batch(allreqs[i:i + 4000])
        it = iter(ans)
        nv = {'c': 0, 'p': 0}
        bad_gen = 0
        for r in results:
            if 'harness_error' in r:
                bad_gen += 1
                continue
            ctx.evaluations += 1
            ctx.nontrivial += 1
            for (kind, name, impl), q in zip(r['checks'], r['reqs']):
                a = next(it)
                if a != impl:
                    ctx.corr_failures.append(r['src'])
                    if nv['c'] < 3:
                        nv['c'] += 1
                        ctx.violation('docstring-start-correspondence', {'what': '_find_docstr_startpos_workaround for %s gives %r, model %r' % (name, impl, a),
                                      'module_source': r['src'], 'theorem_or_correspondence': 'correspondence find_docstr_start (feeds C08_docstring_start)'}, bool(r['problems']))
            if r['problems'] and nv['p'] < 5:
                nv['p'] += 1
                ctx.violation('line-numbers', {'what': '; '.join(r['problems'])[:1800], 'module_source': r['src'], 'gen_seed': r.get('gen_seed'),
                              'theorem_or_correspondence': 'C08: the file read at the reported lines'}, True)
        ctx.count('generated layouts that are not valid modules (skipped)', bad_gen)
        rewrite_same_path(ctx, tmp)
    finally:
        shutil.rmtree(tmp, ignore_errors=True)
    ctx.add_rule('%d generated module layouts: blank lines, 0..2 decorators, function or method, six quote/prefix styles, docstring opening alone or sharing its line, '
                 'closing alone or sharing, freeform / google with or without leading prose / behind a skipped block with wants, multi-line statements and wants before the '
                 'failure x failure kind {none, raise, raise inside a multi-line statement, call into a failing helper (also inside a block), got/want (also after a multi-line '
                 'statement), raise inside try/finally, inside a with block, re-raised by a bare raise} x position x styles {freeform, google}; the file is read back at every reported line' % n)
    ctx.sample({'module_source': [r for r in results if 'problems' in r][0]['src'][:1500]})
    ctx.assumptions += ['H-plain-literal: every newline of a docstring value is a physical line break (the generator writes raw or escape-free docstrings)',
                        'which frame CPython reports for an exception and ast end_lineno are runtime oracles']


def replay(path):
    d = json.load(open(path))
    tmp = tempfile.mkdtemp(prefix='xdverif_c08r_')
    try:
        if d.get('kind') == 'line-numbers' and d.get('gen_seed') is not None:
            # the module is regenerated from its seed (with the planted failures and their lines) and judged as in the check
            r = _worker((tmp, 0, d['gen_seed']))
            if r.get('src') != d['module_source']:
                print('(the generator has changed since this replay was written; judging the recorded module by its part offsets only)')
            else:
                for pr in r['problems']:
                    print(pr)
                if r['problems']:
                    print('VIOLATION property=C08 replay=%s' % path)
                    return 1
                print('every reported line of the module holds the text it is reported for')
                return 0
        from xdoctest import core
        p = os.path.join(tmp, 'xdverif_c08_replay.py')
        if d.get('rewrite'):
            # the first version is collected, then the file is rewritten (same size, same modification time) and collected again below
            open(p, 'w').write(d['first_version'])
            st = os.stat(p)
            with warnings.catch_warnings():
                warnings.simplefilter('ignore')
                list(core.parse_doctestables(p, style='freeform', analysis='static'))
            open(p, 'w').write(d['module_source'])
            os.utime(p, ns=(st.st_atime_ns, st.st_mtime_ns))
        else:
            open(p, 'w').write(d['module_source'])
        flines = re.split('\r\n|\r|\n', d['module_source'])
        bad = False
        for style in ('freeform', 'google'):
            with warnings.catch_warnings():
                warnings.simplefilter('ignore')
                try:
                    exs = list(core.parse_doctestables(p, style=style, analysis='static'))
                except Exception as e:      # noqa
                    print(style, 'collecting the doctests raised %s: %s' % (type(e).__name__, e))
                    bad, exs = True, []
            for ex in exs:
                for part in ex._parts:
                    n = ex.lineno + part.line_offset
                    got = flines[n - 1] if 0 < n <= len(flines) else None
                    ok = got is not None and got.strip() == part.orig_lines[0].strip()
                    print(style, ex.unique_callname, 'line', n, repr(got), 'OK' if ok else 'MISMATCH with %r' % part.orig_lines[0])
                    bad = bad or not ok
        if bad or d['kind'] != 'line-numbers':
            print('VIOLATION property=C08 replay=%s' % path)
            return 1
        if d.get('rewrite'):
            print('after the rewrite every part is reported on the line that holds it')
            return 0
        print('(part offsets hold on this module; the recorded problem concerned failed_lineno: %s)' % d['what'][:300])
        print('VIOLATION property=C08 replay=%s' % path)
        return 1
    finally:
        shutil.rmtree(tmp, ignore_errors=True)
        sys.modules.pop('xdverif_c08_replay', None)
