"""C13 — Parsing partitions the docstring.

Theorems: Props/C13.v (labeller: one labelled line per input line, identical up to the
triple-quote display prefix, for every tokenizer behaviour; grouping passes keep every line once, in order).
Correspondence: DoctestParser().parse vs the extracted model (labels -> groups -> parts, offsets, modes,
directives, failure phase) on every docstring of <= N lines over a line alphabet and on seeded random
block-built docstrings; the tokenizer/ast oracles are answered by CPython (pristine 3.11 tokenizer copy).
Search (model independent): parts joined back must reproduce the normalised docstring line for line,
offsets must be positions, and for block-built docstrings every line must carry its intended label.
"""
import itertools
import json
import warnings

from harness import common, parsemodel
from harness.common import Sym

SYMS = ['prose', '', '    indented prose', '>>> x = 1', '>>> f(', '... 2)', '...', ">>> s = '''", "text'''",
        '1', '    2', '>>>', '    >>> y = 3', 'Example:', '>>> print(x)', '>>> x  # doctest: +SKIP',
        '>>> # xdoctest: +SKIP', '    ... z', '>>> @dec', '>>> def f(): pass', '>>> x; y', '\t>>> t = 1', '  body', '   - leaf']


EXTRA_SYMS = ['>>>\tq = 1', '>>> \xe9 = 1', '\xa0>>> n = 1', '>>> w = 1\x0c', 'prose\x0cmore', '            >>> deep = 1', '            deep want',
              '>>> long_name_' + 'x' * 180 + ' = 1', 'w' * 200, '...   ', '>>>  two_blanks = 1', '>>> a = 1  \t ', '\x1c', '>>> b = "\x85"', ' \t ', '>>> c = 1\r',
              '>>> # xdoctest: +REQUIRES(module:\xe9)', '... # only a comment', '>>> d = (1,  # comment', '...      2)',
              # a prompt is followed by an ASCII blank (or nothing): other white space after the three characters makes it ordinary text
              '    \xe9t\xe9 (a want that starts with a non-ASCII letter)', '\xdcberblick: prose', '        \u03b1\u03b2 deep', '    \u2192 3', '\u65e5\u672c',
              '...\u3000rest of a sentence', '>>>\u3000wide blank', '...\xa0no-break', '>>>\u2003em', '    ...\u3000indented', '...\x0b', '>>>\x1f']


# ---------------------------------------------------------------------------
# model-independent predicates on the implementation's result
# ---------------------------------------------------------------------------
def normalized_lines(doc):
    """tab-expanded, commonly de-indented docstring lines (what the statement calls the docstring)"""
    s = doc.expandtabs()
    indents = []
    for ln in s.split('\n'):
        k = len(ln) - len(ln.lstrip(' '))
        if k < len(ln) and not ln[k].isspace():
            indents.append(k)
    m = min(indents) if indents else 0
    if m > 0:
        s = '\n'.join(ln[m:] for ln in common.srclines(s))
    return common.srclines(s)


def part_lines(item):
    """(kind, line) for every line of a parsed item"""
    if item[0] == Sym('text'):
        return [('text', l) for l in item[1].split('\n')]
    return [('src', l) for l in item[4]] + [('want', l) for l in item[2]]


def same_up_to_indent_and_hack(docline, partline):
    if docline == partline:
        return True
    k = len(docline) - len(docline.lstrip(' '))
    for j in range(0, k + 1):
        if docline[j:] == partline:
            return True
        # display prefix inserted by the triple-quote hack: at the prompt column, i.e. in front of the de-indented line
        if partline[:4] == '... ' and partline[4:] == docline[j:]:
            return True
    return False


def check_partition(doc, impl):
    """returns None or a description of how the partition property fails"""
    if impl[0] != Sym('parsed'):
        return None
    lines = normalized_lines(doc)
    got = []
    pos = 0
    for item in impl[1]:
        pl = part_lines(item)
        if item[0] == Sym('part'):
            if item[3] != pos:
                return 'part starting at line %d records line_offset %d' % (pos, item[3])
        got.extend(pl)
        pos += len(pl)
    if not lines and got == [('text', '')]:
        return None
    if len(got) != len(lines):
        return 'parts hold %d lines, docstring has %d' % (len(got), len(lines))
    for i, ((kind, pl), dl) in enumerate(zip(got, lines)):
        if not same_up_to_indent_and_hack(dl, pl):
            return 'line %d: docstring %r vs part line %r' % (i, dl, pl)
    return None


# ---------------------------------------------------------------------------
# block-built docstrings with intended labels
# ---------------------------------------------------------------------------
STATEMENTS = [
    (['x = 1'], None), (['y = [1,', '     2]'], None), (['print(x)'], ['1']), (['x'], ['1']),
    (['def f(a):', '    return a', ''], None), (['for i in range(2):', '    print(i)'], ['0', '1']),
    (["s = '''", 'inner text', "'''"], None), (['# a comment'], None), (['x = 1  # xdoctest: +SKIP'], None),
    (['print(1); print(2)'], ['1', '2']), (['@dec', 'def g():', '    pass'], None), (['f(', '  3)'], ['3']),
    (['z = (1 +', '     2)'], None), (['@dec', 'async def h():', '    pass'], None), (['@dec', '@dec', 'class C:', '    pass'], None),
    (['async def k():', '    return 1'], None),
    # triple-quoted strings that hold quote characters of their own kind, also doubled and directly in front of the closing quotes
    (["t = '''def f(sep=''): pass'''"], None), (["u = '''first", "  sep='' end'''"], None), (['v = """say ""hi"" now"""'], None),
    (["w = '''it's", "'' and ''", "done'''"], None), (["print('''a''b''')"], ["a''b"]),
    # ... with two-letter prefixes (rb, fr, Rb, bR, fR) and a lone quote of their own kind inside
    (["d = rb'''don't'''"], None), (['e = fr"""say "hi" {1}"""'], None), (["g = Rb'''it's", "still 'open'", "done'''"], None),
    (['h = bR"""a "q"', '', 'b"""'], None), (["print(fR'''x'y{2}''')"], ["x'y2"]),
    # characters that str.splitlines() breaks at, inside a string literal or a comment, with an unmatched bracket or quotes behind them
    (["rec = 'id\x1e(none'"], None), (["note = 1  # see \x85 [draft"], None), (["sep = 'a\x0c{' + \"\u2028'''\""], None), (["print(len('x\x1c)'))"], ['3']),
    # grammar younger than Python 3.8: doctest source is parsed with the grammar of the running interpreter
    (['match x:', '    case 1:', '        y = 2', '    case _:', '        y = 3'], None), (['with (open(f) as a,', '      open(g) as b):', '    pass'], None),
    (['try:', '    pass', 'except* ValueError:', '    pass'], None), (['def first[T](xs: list[T]) -> T:', '    return xs[0]'], None), (['type Pair[T] = tuple[T, T]'], None),
]


def gen_block_doc(rng, adjacency=False):
    """returns (docstring, intended labels per line, adjacency_used); labels in {'text','src','want'}.
    Blocks are separated so that every label is unambiguous by the property's own wording:
    prose is preceded by a blank line when it follows code or a want; two code blocks of
    different indentation are separated by a blank line or a want -- unless adjacency=True, the
    stratum that places a prompt line of different indentation directly under source lines."""
    lines, labels = [], []
    nblocks = rng.randint(1, 6)
    prev = 'text'
    prev_ind = None
    used_adj = False
    for _b in range(nblocks):
        r = rng.random()
        if r < 0.25:
            if prev in ('want', 'src'):
                lines.append('')
                labels.append('text')
            for _k in range(rng.randint(1, 2)):
                lines.append(rng.choice(['Some prose here.', 'Args:', '    x (int): thing', 'Example:', 'Returns: int']))
                labels.append('text')
            if rng.random() < 0.5:
                lines.append('')
                labels.append('text')
            prev = 'text'
            prev_ind = None
        else:
            ind = rng.choice([0, 0, 4, 4, 8])
            if prev == 'src' and prev_ind is not None and ind != prev_ind:
                if adjacency and rng.random() < 0.7:
                    used_adj = True
                else:
                    lines.append('')
                    labels.append('text')
            style = rng.choice(['ps1', 'ps2', 'ps2'])
            for _s in range(rng.randint(1, 3)):
                src, want = rng.choice(STATEMENTS)
                quoted = any("'''" in l for l in src)
                for j, l in enumerate(src):
                    if j == 0:
                        pre = '>>> '
                    elif quoted and rng.random() < 0.5:
                        pre = None     # unprefixed line inside a multi-line string
                    else:
                        pre = '>>> ' if style == 'ps1' else '... '
                    if pre is None:
                        text = ' ' * ind + l
                    else:
                        text = ' ' * ind + pre + l
                    lines.append(text)
                    labels.append('src')
                if want is not None and rng.random() < 0.7:
                    wind = ind + rng.choice([0, 0, 2])
                    for w in want:
                        lines.append(' ' * wind + w)
                        labels.append('want')
                    prev = 'want'
                else:
                    prev = 'src'
            prev_ind = ind
            if prev != 'want' and rng.random() < 0.4:
                lines.append('')
                labels.append('text')
                prev = 'text'
                prev_ind = None
    while lines and lines[-1] == '':       # str.splitlines() has no final empty line
        lines.pop()
        labels.pop()
    base = rng.choice([0, 0, 4])
    doc = '\n'.join((' ' * base + l) if l.strip() else l for l in lines)
    return doc, labels, used_adj


def classify_label_mismatch(doc, got, labels):
    """known classes of mislabelling on the unchanged tree (finding F8), else None"""
    lines = normalized_lines(doc)
    k = next((j for j, (a, b) in enumerate(zip(got, labels)) if a != b), None)
    if k is None or k == 0 or k >= len(lines):
        return None
    line, prevline = lines[k], lines[k - 1]
    if labels[k] != 'src' or labels[k - 1] != 'src' or got[k - 1] != 'src':
        return None
    if not line.strip().startswith('>>>'):
        return None
    # indentation of the statement the previous source line belongs to
    j = k - 1
    while j > 0 and labels[j - 1] == 'src' and not lines[j].strip().startswith('>>>'):
        j -= 1
    ind_prev = len(lines[j]) - len(lines[j].lstrip(' '))
    ind = len(line) - len(line.lstrip(' '))
    if ind < ind_prev and got[k] == 'text':
        return 'F8a'
    if ind > ind_prev and got[k] == 'want':
        return 'F8b'
    return None


def impl_labels(impl):
    out = []
    for item in impl[1]:
        out.extend(k for k, _ in part_lines(item))
    return out


def _worker(docs):
    res, _tabs = parsemodel.model_parse_many(docs)
    res_repl, _tabs2 = parsemodel.model_parse_many(docs, fn='parse_repl')
    out = []
    for d, r, rr in zip(docs, res, res_repl):
        i = parsemodel.impl_parse(d)
        m = parsemodel.canon_model(r)
        part = check_partition(d, i)
        mr = parsemodel.canon_model(rr)
        if part is None and i[0] == Sym('parsed'):
            # the parser's other mode (every statement a part of its own, as an interactive session would run them) must
            # partition the docstring just the same (no model of that mode: the predicate alone)
            ir = parsemodel.impl_parse(d, simulate_repl=True)
            pr = check_partition(d, ir) if ir[0] == Sym('parsed') else 'simulate_repl=True: %s' % common.sx_enc(ir)[:120]
            if pr is not None:
                part = 'with simulate_repl=True: ' + pr
            elif common.sx_enc(ir) != common.sx_enc(mr):
                part = 'with simulate_repl=True the parts differ from the model: impl %s model %s' % (common.sx_enc(ir)[:400], common.sx_enc(mr)[:400])
        out.append((common.sx_enc(i) == common.sx_enc(m), i, m, part))
    return out


def run(ctx):
    quick = ctx.tier == 'quick'
    # ---- exhaustive over the line alphabet --------------------------------
    nlines = 3 if quick else 4
    docs = ['\n'.join(t) for k in range(1, nlines + 1) for t in itertools.product(SYMS, repeat=k)]
    if quick:
        rng0 = ctx.rng('four-line-sample')
        docs += ['\n'.join(rng0.choice(SYMS) for _ in range(4)) for _ in range(30000)]
        docs += ['\n'.join(rng0.choice(SYMS) for _ in range(rng0.randint(5, 9))) for _ in range(10000)]
    # unusual but legal lines (other whitespace characters, long lines, deep indentation, non-ASCII) and long docstrings
    rng1 = ctx.rng('unusual')
    more = SYMS + EXTRA_SYMS
    docs += ['\n'.join(rng1.choice(more) for _ in range(rng1.randint(2, 8))) for _ in range(3000 if quick else 40000)]
    docs += ['\n'.join(rng1.choice(SYMS) for _ in range(rng1.randint(10, 130))) for _ in range(150 if quick else 2000)]
    # every line indented (so that the common indentation is stripped) and a line boundary other than \\n inside those columns
    for _ in range(1500 if quick else 20000):
        body = [rng1.choice(SYMS) for _k in range(rng1.randint(2, 7))]
        pad = ' ' * rng1.choice([2, 4, 8])
        body = [pad + l if l else l for l in body]
        body.insert(rng1.randrange(len(body) + 1), rng1.choice(['\x0c', '\x1c', '\x85', '\x0b', ' \x0c', '\x1d  ', '\x0c' + pad + 'after']))
        docs.append('\n'.join(body))
    chunks = [docs[i:i + 400] for i in range(0, len(docs), 400)]
    results = [r for ch in common.pmap(_worker, chunks) for r in ch]
    nparsed = 0
    nviol = 0
    for d, (same, i, m, part) in zip(docs, results):
        ctx.evaluations += 1
        key = str(i[0]) + ('/' + str(i[1]) if i[0] != Sym('parsed') else '')
        ctx.count('outcome:' + key)
        if i[0] == Sym('parsed'):
            nparsed += 1
        if part is not None and nviol < 5:
            nviol += 1
            ctx.violation('partition', {'what': 'parts do not partition the docstring: ' + part, 'docstring': d,
                          'impl': common.sx_enc(i), 'theorem_or_correspondence': 'C13 partition predicate on DoctestParser.parse'}, True)
        if not same:
            ctx.corr_failures.append(d)
            if len(ctx.corr_failures) <= 5:
                ctx.violation('parse-correspondence', {
                    'what': 'DoctestParser.parse differs from the model (labels/groups/parts/offsets/modes)',
                    'docstring': d, 'impl': common.sx_enc(i), 'model': common.sx_enc(m),
                    'theorem_or_correspondence': 'correspondence parse (feeds C13_label_partition, C13_group_partition)'},
                    found_input=(part is not None))
    ctx.nontrivial += nparsed
    ctx.exhaustive = True
    ctx.add_rule('every docstring of <= %d lines over a %d-symbol line alphabet%s: parse vs model; non-trivial = parsed into parts (others are contained parse errors)'
                 % (nlines, len(SYMS), ' + 40000 seeded docstrings of 4..9 lines' if quick else ''))
    ctx.sample({'docstring': docs[len(docs) // 3], 'impl': common.sx_enc(results[len(docs) // 3][1])})

    # ---- block-built docstrings: intended labels --------------------------
    rng = ctx.rng('blocks')
    n = 4000 if quick else 60000
    built = [gen_block_doc(rng, adjacency=(k % 10 == 0)) for k in range(n)]
    bdocs = [b[0] for b in built]
    chunks = [bdocs[i:i + 250] for i in range(0, len(bdocs), 250)]
    results = [r for ch in common.pmap(_worker, chunks) for r in ch]
    nlab = 0
    seen = set()
    known = {e['id']: e for e in common.load_known_findings('C13')}
    for (d, labels, adj), (same, i, m, part) in zip(built, results):
        ctx.evaluations += 1
        if d not in seen:
            seen.add(d)
            if i[0] == Sym('parsed'):
                ctx.nontrivial += 1
        ctx.count('blocks:' + str(i[0]))
        if not same:
            ctx.corr_failures.append(d)
            if len([v for v in ctx.violations if v['kind'] == 'parse-correspondence']) < 5:
                ctx.violation('parse-correspondence', {
                    'what': 'DoctestParser.parse differs from the model on a block-built docstring',
                    'docstring': d, 'impl': common.sx_enc(i), 'model': common.sx_enc(m),
                    'theorem_or_correspondence': 'correspondence parse'}, found_input=False)
        if part is not None and adj:
            # a prompt line of another indentation directly under source lines (known findings F8a/F8b): the mislabelled line can
            # open a string that swallows later lines, whose text LEFT of the prompt column is then cut (not a well-formed docstring any
            # more, DESIGN A.6); the model agrees with the implementation on these (correspondence above)
            ctx.count('adjacency_docs_partition_cascade')
        elif part is not None and len([v for v in ctx.violations if v['kind'] == 'partition']) < 5:
            ctx.violation('partition', {'what': 'parts do not partition the docstring: ' + part, 'docstring': d,
                          'impl': common.sx_enc(i), 'theorem_or_correspondence': 'C13 partition predicate'}, True)
        if i[0] == Sym('parsed'):
            got = impl_labels(i)
            nlab += 1
            cls = classify_label_mismatch(d, got, labels) if got != labels else None
            if cls is not None and cls in known:
                ctx.count('known:' + cls)
                ctx.known_finding('%s %s; e.g. docstring=%r' % (cls, known[cls]['what'], known[cls]['witness']['docstring']))
            elif got != labels and len([v for v in ctx.violations if v['kind'] == 'labels']) < 5:
                k = next((j for j, (a, b) in enumerate(zip(got, labels)) if a != b), min(len(got), len(labels)))
                ctx.violation('labels', {
                    'what': 'line %d is labelled %s but is %s by construction' % (
                        k, got[k] if k < len(got) else None, labels[k] if k < len(labels) else None),
                    'docstring': d, 'intended': labels, 'got': got,
                    'theorem_or_correspondence': 'intended labels of a block-built docstring'}, True)
        elif adj:
            ctx.count('adjacency_docs_rejected')     # cascades of F8: the mislabelled line breaks the next statement
        elif len([v for v in ctx.violations if v['kind'] == 'wellformed-rejected']) < 3:
            ctx.violation('wellformed-rejected', {'what': 'a well-formed block-built docstring does not parse',
                          'docstring': d, 'impl': common.sx_enc(i),
                          'theorem_or_correspondence': 'block generator'}, True)
    ctx.count('block_docs_with_labels_checked', nlab)
    ctx.add_rule('%d seeded docstrings assembled from labelled blocks (prose, blanks, statements in >>>/... styles, wants, '
                 'indent levels 0/4/8, unprefixed triple-quote bodies): labels must equal the construction' % n)
    ctx.sample({'block_docstring': built[1][0], 'intended_labels': built[1][1]})
    ctx.assumptions += ['tokenizer/ast answers come from CPython (pristine copy of the 3.11 tokenizer for balance; ast.parse)',
                        'Directive.extract answers are taken from xdoctest itself in this check (the text->directive layer is compared in C04)']


def replay(path):
    d = json.load(open(path))
    doc = d.get('docstring')
    if doc is None:
        print('no docstring in replay')
        return 1
    i = parsemodel.impl_parse(doc)
    res, _ = parsemodel.model_parse_many([doc])
    m = parsemodel.canon_model(res[0])
    part = check_partition(doc, i)
    print('docstring=%r\n impl =%s\n model=%s\n partition=%s' % (doc, common.sx_enc(i), common.sx_enc(m), part))
    if part is not None or common.sx_enc(i) != common.sx_enc(m):
        print('VIOLATION property=C13 replay=%s' % path)
        return 1
    return 0
