"""C01 — Doctest code runs exactly as written: each statement once, in order.

Theorems: Props/C01.v (parts are executed at most once and in source order; PS1 lines are exactly the statement
starts carrying the primary prompt; the stdout recorded per part is exactly what it wrote; tab expansion).
Correspondence: DoctestParser.parse on doctests from the program generator (25 statement kinds x prompt styles x
indentation incl. tabs x wants, blank lines, prose) vs the extracted parser model (labels, PS1 lines through the
parts, offsets, modes; oracles answered by CPython); DocTest.run vs the run-loop model.
Search (model independent): the doctest is run through DocTest.run and its de-prompted source through a plain
exec() in a fresh namespace: the order of executed statements (TRACE), the text written by the code, the stdout
logged for the doctest (REPL echoes of expression statements aside) and the final variable bindings must agree;
statements disabled by a directive must not run.
"""
import ast
import asyncio
import contextlib
import io
import json
import sys
import warnings

from harness import common, gendoc, parsemodel, runmodel
from harness.common import Sym


class SnapDict(dict):
    """the doctest namespace; keeps what clear() throws away"""
    snapshot = None

    def clear(self):
        self.snapshot = dict(self)
        dict.clear(self)


def simple(v):
    if isinstance(v, (int, float, str, bool, type(None))):
        return repr(v)
    if isinstance(v, (list, tuple)):
        return type(v).__name__ + '[' + ','.join(simple(x) for x in v) + ']'
    return '<' + type(v).__name__ + '>'


def bindings(ns):
    return {k: simple(v) for k, v in ns.items() if not k.startswith('_') and k not in ('TRACE', 't', 'pr', 'tn', 'boom', 'ctx', 'deco', 'emit', 'stream', 'log')}


def run_plain(stmts, enabled):
    """the de-prompted source as an ordinary program"""
    lines = []
    for s, en in zip(stmts, enabled):
        if en:
            lines += s.plain_source()
    ns = {'TRACE': []}
    exec(gendoc.PRELUDE, ns)
    buf = io.StringIO()
    code = compile('\n'.join(lines), '<plain>', 'exec', flags=ast.PyCF_ALLOW_TOP_LEVEL_AWAIT)
    with contextlib.redirect_stdout(buf):
        r = eval(code, ns)
        if asyncio.iscoroutine(r):
            asyncio.run(r)
    return list(ns['TRACE']), buf.getvalue(), bindings(ns)


def run_doctest(doc):
    from xdoctest import doctest_example
    ex = doctest_example.DocTest(docsrc=doc, lineno=1)
    ex.mode = 'native'
    ns = SnapDict()
    ex.global_namespace = ns
    trace = []
    ns['TRACE'] = trace
    exec(gendoc.PRELUDE, ns)
    echoes = []
    orig_hook = sys.displayhook

    def hook(v):
        if v is not None:
            echoes.append(repr(v) + '\n')
        orig_hook(v)
    sys.displayhook = hook
    so = sys.stdout
    try:
        with warnings.catch_warnings():
            warnings.simplefilter('ignore')
            s = ex.run(on_error='return', verbose=0)
    finally:
        sys.displayhook = orig_hook
        sys.stdout = so
        try:
            import builtins
            if hasattr(builtins, '_'):
                del builtins._
        except Exception:
            pass
    logged = ''.join(ex.logged_stdout[k] for k in sorted(ex.logged_stdout))
    # take the REPL echoes out again, in order
    pos = 0
    for e in echoes:
        i = logged.find(e, pos)
        if i >= 0:
            logged = logged[:i] + logged[i + len(e):]
            pos = i
    verdict = 'passed' if s['passed'] else 'failed' if s['failed'] else 'skipped'
    return verdict, list(trace), logged, bindings(ns.snapshot or {}), ex


BOUND = {'assign': ('v%d', '%d'), 'multi': ('w%d', '[%d, 0]'), 'augassign': ('c%d', '%d')}


def readback(stmt, k):
    """a statement printing a variable bound by an earlier statement"""
    name, val = BOUND[stmt.kind]
    s = gendoc.Stmt('print', k)
    s.kind = 'readback'
    s.lines = ["print('rb%d', %s)" % (k, name % stmt.k)]
    s.out = 'rb%d %s\n' % (k, val % stmt.k)
    s.reads = name % stmt.k
    return s


MODULE_TMPL = '''TRACE = []
%s
%s

def func():
    r"""
%s
    """
'''


def run_in_module(doc, stmts, enabled, idx, tmp):
    """the doctest inside a module whose globals have the same names as the variables it binds"""
    import os
    from xdoctest import core
    names = sorted({BOUND[s.kind][0] % s.k for s in stmts if s.kind in BOUND})
    globs = '\n'.join("%s = 'MODULE'" % n for n in names)
    # ordinary module globals that happen to be called like __future__ features: they switch nothing on
    globs += "\nannotations = {'k': 1}\ndivision = 'north'\ndef generators():\n    return []\n"
    # (tabs are expanded first: prefixing a tab-indented line with four blanks would change its column)
    body = '\n'.join('    ' + l if l else l for l in doc.expandtabs().split('\n'))
    src = MODULE_TMPL % (gendoc.PRELUDE, globs, body)
    if idx % 2 == 0:
        # the module has a __future__ import of its own (one that changes nothing here): the doctest inherits it, and keeps everything else
        src = 'from __future__ import generator_stop\n' + src
    path = os.path.join(tmp, 'xdverif_c01_m%d.py' % idx)
    open(path, 'w').write(src)
    with warnings.catch_warnings():
        warnings.simplefilter('ignore')
        exs = [e for e in core.parse_doctestables(path, style='freeform', analysis='static') if e.callname == 'func']
    if len(exs) != 1:
        return ['the doctest of func() was not collected exactly once (%d)' % len(exs)], src
    ex = exs[0]
    ex.mode = 'native'
    ns = SnapDict()
    ex.global_namespace = ns
    so = sys.stdout
    try:
        with warnings.catch_warnings():
            warnings.simplefilter('ignore')
            s = ex.run(on_error='return', verbose=0)
    finally:
        sys.stdout = so
    mod = sys.modules.get('xdverif_c01_m%d' % idx)
    trace = list(mod.TRACE) if mod is not None else None
    logged = ''.join(ex.logged_stdout[k] for k in sorted(ex.logged_stdout))
    # reference: the module source then the program, in one fresh namespace
    pns = {}
    exec(src.split('def func():')[0], pns)
    lines = []
    for st, en in zip(stmts, enabled):
        if en:
            lines += st.plain_source()
    buf = io.StringIO()
    code = compile('\n'.join(lines), '<plain>', 'exec', flags=ast.PyCF_ALLOW_TOP_LEVEL_AWAIT)
    with contextlib.redirect_stdout(buf):
        r = eval(code, pns)
        if asyncio.iscoroutine(r):
            asyncio.run(r)
    problems = []
    if not s['passed']:
        problems.append('inside a module the doctest did not pass (%s)' % (type(s['exc_info'][1]).__name__ if s['exc_info'] else 'skipped'))
    if trace != pns['TRACE']:
        problems.append('inside a module: statements executed %r, the program executes %r' % (trace, pns['TRACE']))
    if s['passed'] and logged != buf.getvalue():
        problems.append('inside a module: stdout logged %r, the code writes %r' % (logged[:200], buf.getvalue()[:200]))
    if s['passed'] and ns.snapshot is not None:
        b1 = {k: v for k, v in bindings(ns.snapshot).items() if k in names}
        b2 = {k: v for k, v in bindings(pns).items() if k in names}
        if b1 != b2:
            problems.append('inside a module: final bindings %r, the program leaves %r' % (b1, b2))
    sys.modules.pop('xdverif_c01_m%d' % idx, None)
    return problems, src


def gen_cases(ctx):
    rng = ctx.rng('programs')
    cases = []
    for _ in range(1500 if ctx.tier == 'quick' else 30000):
        stmts = gendoc.gen_program(rng)
        bound = [st for st in stmts if st.kind in BOUND]
        if bound and rng.random() < 0.6:
            stmts = stmts + [readback(rng.choice(bound), 10 + len(stmts))]
        enabled = [True] * len(stmts)
        if rng.random() < 0.35:
            gendoc.add_inline_directives(rng, stmts)
        text, wants = gendoc.render_layout(rng, stmts, google=False)
        lines = text.split('\n')
        # tabs instead of 8 leading blanks on some lines; inline +SKIP on some statements without a want
        r = rng.random()
        if r < 0.1:
            lines = [('\t' + l[8:]) if l.startswith(' ' * 8) else l for l in lines]
        elif r < 0.25:
            # the whole docstring indented by 8 columns, the indentation of some lines written as one tab
            lines = [(' ' * 8 + l) if l else l for l in lines]
            lines = [('\t' + l[8:]) if l and rng.random() < 0.5 else l for l in lines]
        doc = '\n'.join(lines)
        cases.append((doc, stmts, enabled, wants))
    # disabled statements: a program with a block SKIP in the middle
    for _ in range(200 if ctx.tier == 'quick' else 3000):
        n = rng.randint(3, 7)
        stmts = [gendoc.Stmt(rng.choice(['assign', 'print', 'multi', 'compound', 'for', 'decodef', 'class', 'inline_skip_triple_blank', 'inline_skip_bracket_blank']), 10 + i)
                 for i in range(n)]
        a, b = sorted(rng.sample(range(n + 1), 2))
        # (statements that carry an inline +SKIP of their own, on their last line, are off wherever they stand)
        enabled = [not (a <= i < b) and not stmts[i].kind.startswith('inline_skip') for i in range(n)]
        lines = []
        for i, s in enumerate(stmts):
            if i == a and a != b:
                lines.append('>>> # xdoctest: +SKIP')
            if i == b and a != b:
                lines.append('>>> # xdoctest: -SKIP')
            lines += s.render('ps2', 0)
        cases.append(('\n'.join(lines), stmts, enabled, {}))
    # what the code writes is recorded character for character, also carriage returns (no wants: a want cannot spell them)
    for _ in range(60 if ctx.tier == 'quick' else 1000):
        n = rng.randint(2, 6)
        stmts = [gendoc.Stmt(rng.choice(['assign', 'print', 'print_cr', 'print_cr', 'print2', 'for', 'try']), 10 + i) for i in range(n)]
        lines = []
        for s in stmts:
            lines += s.render(rng.choice(['ps1', 'ps2']), 0)
        cases.append(('\n'.join(lines), stmts, [True] * n, {}))
    # references to the output stream taken in one part and used in later ones (a bound write method, the stream object, a logging
    # handler): what is written through them is output of the doctest like everything else
    for _ in range(60 if ctx.tier == 'quick' else 1000):
        n = rng.randint(2, 6)
        stmts = [gendoc.Stmt('save_writer', 10)] + [gendoc.Stmt(rng.choice(['use_writer', 'use_stream', 'use_logger', 'print', 'assign', 'for']), 11 + i) for i in range(n)]
        text, wants = gendoc.render_layout(rng, stmts, google=False, allow_prose=False, vary_indent=False)
        cases.append((text, stmts, [True] * len(stmts), wants))
    return cases


def _worker(cases):
    import tempfile, shutil
    tmp = tempfile.mkdtemp(prefix='xdverif_c01_')
    try:
        return _worker2(cases, tmp)
    finally:
        shutil.rmtree(tmp, ignore_errors=True)


def _worker2(cases, tmp):
    out = []
    docs = [c[0] for c in cases]
    res, _tabs = parsemodel.model_parse_many(docs)
    for (doc, stmts, enabled, wants), r in zip(cases, res):
        problems = []
        i = parsemodel.impl_parse(doc)
        m = parsemodel.canon_model(r)
        same = common.sx_enc(i) == common.sx_enc(m)
        try:
            ptrace, pout, pbind = run_plain(stmts, enabled)
        except Exception as e:
            out.append((same, ['harness: the plain program does not run: %r' % e], None))
            continue
        try:
            verdict, trace, logged, bind, ex = run_doctest(doc)
        except Exception as e:
            # a well formed docstring that cannot even be parsed / run: none of its statements is executed
            out.append((same, ['the doctest could not be parsed or run: %s: %s' % (type(e).__name__, str(e)[:300])],
                        (common.sx_enc(i)[:1200], common.sx_enc(m)[:1200]) if not same else None))
            continue
        if verdict != 'passed' and any(enabled):
            problems.append('the doctest did not pass (%s: %s)' % (verdict, type(ex.exc_info[1]).__name__ if ex.exc_info else None))
        if trace != ptrace:
            problems.append('statements executed %r, the program executes %r' % (trace, ptrace))
        if verdict == 'passed':
            if logged != pout:
                problems.append('stdout logged for the doctest %r, the code writes %r' % (logged[:200], pout[:200]))
            if bind != pbind:
                diff = sorted(set(bind.items()) ^ set(pbind.items()))[:6]
                problems.append('final bindings differ: %r' % (diff,))
        if any(st.kind in ('readback', 'annotated_def', 'await_expr', 'async_await', 'async_for', 'async_with') for st in stmts) and not doc.startswith('Summary'):
            try:
                mp, _src = run_in_module(doc, stmts, enabled, abs(hash(doc)) % 10 ** 9, tmp)
                problems += mp
            except Exception as e:
                problems.append('harness: module variant failed: %r' % e)
        out.append((same, problems, (common.sx_enc(i)[:1200], common.sx_enc(m)[:1200]) if not same else None))
    return out


def check_known_classes(ctx):
    """recorded defects of the unchanged tree, re-evaluated on the real code every run (the generator avoids them: Guard F16)"""
    from xdoctest import exceptions, parser
    for e in common.load_known_findings('C01'):
        doc = e['witness']['doctest']
        try:
            parser.DoctestParser().parse(doc)
            still = False
        except exceptions.DoctestParseError:
            still = True
        ctx.evaluations += 1
        if still:
            ctx.known_finding('%s %s; e.g. doctest=%r' % (e['id'], e['what'], doc))
        else:
            ctx.notes.append('recorded finding %s no longer reproduces' % e['id'])
    # the same layout without the want directly behind it, and with '...' continuation prompts, must work
    for doc in [">>> print('o')\n>>> z = \"{}|{}\".format(1,\n>>>     '''first\n  body\nlast''')\n>>> y = 1\no\n",
                ">>> print('o')\n>>> z = \"{}|{}\".format(1,\n...     '''first\n  body\nlast''')\no\n"]:
        ctx.evaluations += 1
        try:
            parser.DoctestParser().parse(doc)
        except Exception as ex:
            ctx.violation('execution', {'what': 'a neighbour of the recorded class F16 does not parse: %s' % ex, 'doctest': doc, 'enabled': None,
                          'theorem_or_correspondence': 'C01 known class boundary'}, True)


def run(ctx):
    check_known_classes(ctx)
    # 'the stdout recorded for the doctest is exactly what its code wrote': the capture object of DocTest.run, driven directly
    from harness.props import c12
    c12.capture_protocol(ctx)
    cases = gen_cases(ctx)
    chunks = [cases[i:i + 60] for i in range(0, len(cases), 60)]
    results = [r for ch in common.pmap(_worker, chunks) for r in ch]
    nv = {'c': 0, 'p': 0}
    for (doc, stmts, enabled, wants), (same, problems, pair) in zip(cases, results):
        ctx.evaluations += 1
        for s in stmts:
            ctx.count('kind:' + s.kind)
        if len(stmts) > 1:
            ctx.nontrivial += 1
        if not same:
            ctx.corr_failures.append(doc)
            if nv['c'] < 4:
                nv['c'] += 1
                ctx.violation('parse-correspondence', {'what': 'DoctestParser.parse differs from the model on a generated program', 'doctest': doc,
                              'impl': pair[0], 'model': pair[1],
                              'theorem_or_correspondence': 'correspondence parse / locate_ps1 / package_chunk (feeds C01_ps1_are_statement_starts)'}, bool(problems))
        if problems and nv['p'] < 5:
            nv['p'] += 1
            ctx.violation('execution', {'what': '; '.join(problems)[:1500], 'doctest': doc, 'enabled': enabled,
                          'theorem_or_correspondence': 'doctest run vs plain exec of the de-prompted source'}, True)
    ctx.add_rule('programs of 1..8 statements over 25 kinds (simple, compound, decorated, multi-line, triple-quoted with unprefixed lines, semicolon, comment, '
                 'async def / top-level await / async for / async with) x prompt style x indentation (also tabs) x wants x blank lines x prose x google header, and '
                 'programs with a block-SKIP window: parse vs model; DocTest.run vs plain exec (TRACE, written stdout, logged stdout, final bindings); '
                 'non-trivial = more than one statement')
    ctx.sample({'doctest': cases[5][0]})
    ctx.sample({'doctest': cases[-3][0], 'enabled': cases[-3][2]})
    ctx.assumptions += ['Guard F16: the generator puts no want directly behind a statement whose \'>>>\'-prompted continuation line opens a string that goes on over unprefixed lines (recorded finding, re-evaluated every run)',
                        'H-exec-seq: exec of consecutive slices in one dict equals exec of the whole program (CPython); checked here, not proved',
                        'REPL echoes of expression statements (sys.displayhook) are not writes of the code and are removed before comparing']


def replay(path):
    d = json.load(open(path))
    if d.get('kind') == 'capture-protocol':
        from harness.props import c12
        return c12.replay_capture_protocol(d, path, 'C01')
    doc = d['doctest']
    i = parsemodel.impl_parse(doc)
    res, _ = parsemodel.model_parse_many([doc])
    m = parsemodel.canon_model(res[0])
    verdict, trace, logged, bind, ex = run_doctest(doc)
    print('doctest:\n%s\nverdict=%s trace=%r\nlogged=%r\nparse agrees with model: %s' % (doc, verdict, trace, logged, common.sx_enc(i) == common.sx_enc(m)))
    if common.sx_enc(i) != common.sx_enc(m) or d['kind'] == 'execution':
        print('VIOLATION property=C01 replay=%s' % path)
        return 1
    return 0
