"""C20 — Backwards compatible: what passes under the standard doctest module passes here.

Theorems: Props/C20.v (the output relation of xdoctest contains the exact comparison of the standard
OutputChecker; the standard ellipsis matcher's acceptance implies the wildcard relation EllMatch; ...).
Correspondence / search: the standard library's doctest module is an executable oracle.  Doctests are generated in
standard syntax from the statement grammar; the wants are produced by executing each example with REPL semantics
(compile mode 'single', sys.displayhook echo, <BLANKLINE>, traceback header + final line); every text that the
standard DocTestRunner(optionflags=0) passes must be collected by xdoctest, pass, and execute the same examples
(TRACE).  Failures are classified by Guard20 into the recorded classes (known findings F6, F6b, F6c, F6d, F8b) or
reported as violations.
"""
import contextlib
import doctest
import io
import json
import os
import sys
import traceback
import warnings

from harness import common, gendoc
from harness.common import Sym

PRELUDE_NS = None


def fresh_ns():
    ns = {'TRACE': []}
    exec(gendoc.PRELUDE, ns)
    return ns


# ---------------------------------------------------------------------------
# examples in standard syntax
# ---------------------------------------------------------------------------
def example_sources(rng, k):
    """one example: (source lines, option directive or None, guard class or None)"""
    r = rng.random()
    if r < 0.03:
        # an output with many blank lines (each spelled <BLANKLINE> in the want) and many lines
        return ['for r%d in range(t(%d) - %d + 11):' % (k, k, k), "    print('rec', r%d)" % k, '    print()'], None, None
    if r < 0.12:
        return ['v%d = t(%d)' % (k, k)], None, None
    if r < 0.24:
        return ["print('o%da', t(%d))" % (k, k)], None, None
    if r < 0.32:
        return ["print('o%da\\n\\no%db %%d' %% t(%d))" % (k, k, k)], None, None            # output with a blank line
    if r < 0.42:
        return ['t(%d) + 1000' % k], None, None                                            # echoed value
    if r < 0.47:
        return ['tn(%d)' % k], None, None                                                  # None is not echoed
    if r < 0.53:
        return ['w%d = [t(%d),' % (k, k), '      0]'], None, None
    if r < 0.60:
        return ['for i%d in range(t(%d) - %d + 2):' % (k, k, k), "    print('f%d', i%d)" % (k, k)], None, None
    if r < 0.65:
        return ['def f%d(x):' % k, "    print('in f', x)", '    return x'], None, None
    if r < 0.70:
        return ['p%d = t(%d); q%d = p%d + 1' % (k, k, k, k)], None, None
    if r < 0.715:
        # a trailing semicolon (valid: an empty statement follows): the value of the expression in front of it is still echoed
        return [rng.choice(['t(%d) + 1000;' % k, "print('o%da', t(%d));" % (k, k), 'tn(%d);' % k, 't(%d) + 1000;   # note' % k, 'e%d = t(%d); e%d;' % (k, k, k)])], None, None
    if r < 0.74:
        return ['# a comment', 'c%d = t(%d)' % (k, k)], None, None
    if r < 0.76:
        return ["boom(%d, ValueError, 'bad %d')" % (k, k)], None, None                      # expected traceback
    if r < 0.775:
        # exceptions whose rendering has several lines (source location, caret): a syntax error found while the example RUNS
        bad = rng.choice(["eval('1 +')", "exec('def f(:\\n    pass')", "compile('x = = 1', 'f.py', 'exec')", "exec('if 1:\\n  a = 1\\n    b = 2')"])
        return ["t(%d) and %s" % (k, bad)], rng.choice([None, None, 'IGNORE_EXCEPTION_DETAIL']), None
    if r < 0.80:
        # writes to stdout, then raises: the standard module ignores what was printed before an expected exception
        # (the want is the traceback alone), and the text must not turn up in a later example's output either
        return ["pr(%d) and boom(%d, ValueError, 'late %d')" % (k, k, k)], None, None
    if r < 0.84:
        msg = rng.choice(["'k%d'" % k, "'bad value 1.5 in v2.x (%d)'" % k, "'see file settings.ini: line %d'" % k, "'a: b.c'"])
        cls = rng.choice(['KeyError', 'ValueError', 'ZeroDivisionError'])
        return ["boom(%d, %s, %s)" % (k, cls, msg)], 'IGNORE_EXCEPTION_DETAIL', None
    if r < 0.86:
        return ["print('skipped', t(%d))" % k], 'SKIP', None
    if r < 0.88:
        # an option on an example that continues over several lines
        return rng.choice([['u%d = [t(%d),' % (k, k), '      0]'], ['for j%d in range(t(%d)):' % (k, k), '    pass'],
                           # ... with a line that holds nothing but a comment (the option still belongs to this example alone)
                           ['for j%d in range(t(%d)):' % (k, k), '    # nothing to do here', '    pass'],
                           ['u%d = [t(%d),' % (k, k), '      # the second element', '      0]']]), rng.choice(['SKIP', 'SKIP', 'ELLIPSIS', 'NORMALIZE_WHITESPACE']), None
    if r < 0.92:
        return ["print('a   b    %d' %% t(%d))" % (k, k)], 'NORMALIZE_WHITESPACE', None
    if r < 0.96:
        return ["print('start middle %d end' %% t(%d))" % (k, k)], 'ELLIPSIS', None
    return ["s%d = t(%d) and '''first" % (k, k), '  body', "last'''"], None, None


def repl_output(src_lines, ns):
    """what the interactive interpreter shows for this example"""
    buf = io.StringIO()
    src = '\n'.join(src_lines) + '\n'
    try:
        code = compile(src, '<repl>', 'single')
        with contextlib.redirect_stdout(buf):
            exec(code, ns)
        return buf.getvalue(), None
    except Exception as e:
        return buf.getvalue(), e


def render_want(out, exc, directive, rng):
    lines = []
    if exc is not None:
        last = traceback.format_exception_only(type(exc), exc)[-1].rstrip('\n')
        if directive == 'IGNORE_EXCEPTION_DETAIL':
            last = last.split(':')[0] + ': some other detail'
        lines = ['Traceback (most recent call last):']
        if rng.random() < 0.5:
            lines.append('    ...')
        lines += last.split('\n')
        return lines
    if not out:
        return []
    got = out[:-1] if out.endswith('\n') else out
    lines = [l if l.strip() else '<BLANKLINE>' for l in got.split('\n')]
    if directive == 'NORMALIZE_WHITESPACE':
        lines = [' '.join(l.split()) for l in lines]
    if directive == 'ELLIPSIS':
        lines = [l.replace('middle', '...') for l in lines]
    return lines


def gen_doctest(rng):
    ns = fresh_ns()
    lines = []
    indent = rng.choice([0, 0, 4])
    pad = ' ' * indent
    if rng.random() < 0.3:
        lines += [pad + 'Some prose first.', '']
    n = rng.randint(1, 7)
    prev_end = 'blank'
    for i in range(n):
        k = 10 + i
        if i and prev_end in ('want', 'blank') and rng.random() < 0.25:
            # the standard module lets every example have its own indentation; after a want, a blank line or prose
            # the next example may sit deeper or shallower (directly after a source line without want: class F6e)
            pad = ' ' * rng.choice([0, 2, 4, 8])
        src, directive, _ = example_sources(rng, k)
        if directive == 'SKIP':
            out, exc = '', None
        else:
            out, exc = repl_output([l for l in src], ns)
        ps1 = pad + '>>> ' + src[0]
        if directive:
            # one option, or several: separated by commas or - equally valid in the standard module - by blanks; the added ones
            # are on by default in xdoctest and do not change what the standard module accepts here
            extra = rng.choice(['', '', '', ' +ELLIPSIS', ', +ELLIPSIS', ' +NORMALIZE_WHITESPACE', ',+NORMALIZE_WHITESPACE', '  +ELLIPSIS  +NORMALIZE_WHITESPACE'])
            lead = rng.choice(['', '', '+ELLIPSIS ', '+NORMALIZE_WHITESPACE, ']) if directive in ('SKIP', 'IGNORE_EXCEPTION_DETAIL') else ''
            ps1 += '  # doctest: ' + lead + '+' + directive + (extra if directive != 'NORMALIZE_WHITESPACE' or 'ELLIPSIS' in extra or not extra else '')
        block = [ps1] + [pad + '... ' + l for l in src[1:]]
        if len(src) > 1 and rng.random() < 0.3 and not src[-1].startswith(' ') and "'''" not in src[-1]:
            pass
        if len(src) > 1 and src[-1].startswith('    ') and rng.random() < 0.5:
            block.append(pad + '...')              # terminating bare continuation line
        wl = [pad + w for w in render_want(out, exc, directive, rng)] if directive != 'SKIP' else [pad + 'anything at all']
        block += wl
        lines += block
        prev_end = 'want' if wl else 'src'
        r = rng.random()
        if r < 0.2:
            lines.append('')
            prev_end = 'blank'
        elif r < 0.3:
            lines += ['', pad + 'Some prose between examples.', '']
            prev_end = 'blank'
    return '\n'.join(lines) + '\n'


def run_std(doc):
    ns = fresh_ns()
    test = doctest.DocTestParser().get_doctest(doc, ns, 'x', 'x.py', 0)
    runner = doctest.DocTestRunner(verbose=False, optionflags=0)
    with contextlib.redirect_stdout(io.StringIO()):
        r = runner.run(test, out=lambda s: None, clear_globs=False)
    return r.failed == 0 and r.attempted > 0, list(ns['TRACE']), r.attempted


def run_xd(doc):
    from xdoctest import doctest_example, exceptions
    ex = doctest_example.DocTest(docsrc=doc, lineno=1)
    ex.mode = 'native'
    trace = []
    ex.global_namespace['TRACE'] = trace
    exec(gendoc.PRELUDE, ex.global_namespace)
    so = sys.stdout
    try:
        with warnings.catch_warnings():
            warnings.simplefilter('ignore')
            s = ex.run(on_error='return', verbose=0)
        res = 'passed' if s['passed'] else ('failed:' + type(s['exc_info'][1]).__name__) if s['failed'] else 'skipped'
    except exceptions.DoctestParseError:
        res = 'not-collected'
    except BaseException as e:      # noqa
        res = 'escaped:' + type(e).__name__
    finally:
        sys.stdout = so
    return res, list(trace)


# recorded incompatibility classes (KNOWN_FINDINGS.json), each with the text that reproduces it
CLASS_DOCS = {
    'F6': ">>> def f(a):\n...     print('in f', a)\n...     return 5\n>>> f(3)\nin f 3\n5\n",
    'F6b': ">>> 1 +\nTraceback (most recent call last):\nSyntaxError: invalid syntax\n",
    'F6c': ">>> import sys\n>>> sys.exit(3)\nTraceback (most recent call last):\nSystemExit: 3\n",
    'F6d': ">>> 1 == 1\n1\n",
    'F6e': ">>> x = 5\n    >>> x\n    5\n",
    'F6f': ">>> b'abc'  # doctest: +ELLIPSIS\nb...\n",
    'F6g': ">>> print('<BLANKLINE>')\n<BLANKLINE>\n",
    'F6h': ">>> print('progress 10%\\rdone')  # doctest: +ELLIPSIS\nprogress...\n",
    'F6i': ">>> print('.\\x1b[0ma')  # doctest: +ELLIPSIS\n.\x1b[0m...\n",
    'F6j': ">>> for i in range(2): i\n0\n1\n",
    'F6k': ">>> for i in range(2):\n... # a comment at column 0\n...     print(i)\n0\n1\n",
}


def _tab_docs():
    """texts whose wants are computed the way the interactive interpreter would show them for the tab-expanded lines"""
    docs = []
    for indent in (4, 3, 6, 2):
        for srcs in (["rec = 'id\tname'", 'len(rec)'], ["row = 'a\tb\tc'", "row.index('b'), row.index('c')"], ["s = '\tend'", 'len(s)', "s.count(' ')"],
                     ["w = 'x\ty' + 'xx\ty'", "print(len(w), w.index('y'))"]):
            ns = {}
            lines = []
            for src in srcs:
                raw = ' ' * indent + '>>> ' + src
                stmt = raw.expandtabs()[indent + 4:]
                out, exc = repl_output([stmt], ns)
                lines.append(raw)
                lines += [' ' * indent + l for l in out.rstrip('\n').split('\n')] if out else []
            docs.append('\n'.join(lines) + '\n')
    return docs


TAB_DOCS = _tab_docs()


def _worker(docs):
    out = []
    for d in docs:
        try:
            ok, strace, attempted = run_std(d)
        except Exception as e:
            out.append(('std-error', repr(e), None, None))
            continue
        if not ok:
            out.append(('std-fails', None, None, None))
            continue
        res, xtrace = run_xd(d)
        out.append(('std-passes', res, strace, xtrace))
    return out



# ---------------------------------------------------------------------------
# ELLIPSIS: the standard matcher (model: Model/StdDoctest.v) vs CPython's doctest._ellipsis_match, and the
# implication std accepts => xdoctest accepts on the implementation (C20_std_ellipsis_accepted)
# ---------------------------------------------------------------------------
ELL_ALPHA = 'a. \n'


def _ellipsis_worker(args):
    import doctest as std
    from xdoctest import checker
    wants, maxgot = args
    gots = list(common.iter_strings(ELL_ALPHA, maxgot))
    reqs = [('forall_str', ELL_ALPHA, maxgot, Sym('bits'), [Sym('std_ellipsis_match'), w, Sym('_')]) for w in wants]
    ans = common.model_batch(reqs, raw=True)
    bad_model, bad_impl, n_true = [], [], 0
    for w, a in zip(wants, ans):
        for g, bit in zip(gots, a):
            sv = bool(std._ellipsis_match(w, g))
            if sv != (bit == '1') and len(bad_model) < 3:
                bad_model.append((w, g, sv, bit))
            if sv:
                n_true += 1
                if not checker._ellipsis_match(g, w) and len(bad_impl) < 3:
                    bad_impl.append((w, g))
    return len(wants) * len(gots), n_true, bad_model, bad_impl


def ellipsis_compat(ctx):
    quick = ctx.tier == 'quick'
    maxwant, maxgot = (6, 5) if quick else (7, 6)
    wants = [w for w in common.iter_strings(ELL_ALPHA, maxwant) if '...' in w]
    rng = ctx.rng('ellipsis')
    # longer wants with several markers
    pieces = ['a', 'b', ' ', '\n', '.', 'ab', '..', ' a', 'b ']
    for _ in range(300 if quick else 5000):
        k = rng.randint(2, 5)
        wants.append((rng.choice(['', ' ', '  ']) + '...' + rng.choice(['', ' ', '\n'])).join(rng.choice(pieces) if rng.random() < 0.8 else '' for _ in range(k)))
    chunks = [(wants[i:i + 40], maxgot) for i in range(0, len(wants), 40)]
    nv = 0
    for n, n_true, bad_model, bad_impl in common.pmap(_ellipsis_worker, chunks):
        ctx.evaluations += n
        ctx.nontrivial += n_true
        ctx.count('ellipsis:std-accepts', n_true)
        for w, g, sv, bit in bad_model:
            if nv < 4:
                nv += 1
                ctx.violation('std-ellipsis-correspondence', {'what': 'doctest._ellipsis_match(want, got) = %s, the model std_ellipsis_match says %s' % (sv, bit),
                              'want': w, 'got': g, 'theorem_or_correspondence': 'correspondence std_ellipsis_match / CPython doctest._ellipsis_match (feeds C20_std_ellipsis_accepted)'}, False)
        for w, g in bad_impl:
            if nv < 8:
                nv += 1
                ctx.violation('ellipsis-incompatible', {'what': 'the standard matcher accepts (want, got) but checker._ellipsis_match(got, want) does not',
                              'want': w, 'got': g, 'theorem_or_correspondence': 'C20_std_ellipsis_accepted on checker._ellipsis_match'}, True)


# ---------------------------------------------------------------------------
# the whole comparison: whatever the standard OutputChecker accepts (no flags, ELLIPSIS, NORMALIZE_WHITESPACE, both - the flags a
# '# doctest:' directive can switch on), xdoctest's check_output accepts in its default state.  On the implementation, every pair
# of small texts; the recorded classes F6d / F6f are recognised by predicates
# ---------------------------------------------------------------------------
import re as _re
_PREFIXED = _re.compile(r"(^|\W)[uUbB][rR]?['\"]", _re.M)


def _pipeline_worker(args):
    wants, gots = args
    import doctest as std
    from xdoctest import checker, directive
    oc = std.OutputChecker()
    rs = directive.RuntimeState()
    bad, known, n = [], {}, 0
    flagsets = (0, std.ELLIPSIS, std.NORMALIZE_WHITESPACE, std.ELLIPSIS | std.NORMALIZE_WHITESPACE)
    reqs, stdv = [], []
    for w in wants:
        want = w + '\n' if w else ''
        for g in gots:
            got = g + '\n' if g else ''
            for fl in flagsets:
                n += 1
                sv = bool(oc.check_output(want, got, fl))
                if (len(w) + len(g) + fl) % 7 == 0:
                    # every seventh evaluation also goes to the model of the standard checker (Model/StdOutput.v)
                    reqs.append(('std_check_output', bool(fl & std.ELLIPSIS), bool(fl & std.NORMALIZE_WHITESPACE), want, got))
                    stdv.append(sv)
                if sv and not checker.check_output(got, want, rs):
                    if (want, got) in (('1\n', 'True\n'), ('0\n', 'False\n')):
                        known['F6d'] = known.get('F6d', 0) + 1
                    elif (fl & std.ELLIPSIS) and '...' in want and _PREFIXED.search(got):
                        known['F6f'] = known.get('F6f', 0) + 1
                    elif '<BLANKLINE>' in got:
                        known['F6g'] = known.get('F6g', 0) + 1
                    elif '\r' in got or '\r' in want:
                        known['F6h'] = known.get('F6h', 0) + 1
                    elif '\x1b' in got + want or '\x9b' in got + want:
                        known['F6i'] = known.get('F6i', 0) + 1
                    elif len(bad) < 5:
                        bad.append((want, got, fl))
    corr = []
    for r, sv, mv in zip(reqs, stdv, common.model_batch(reqs)):
        if mv is not sv and len(corr) < 3:
            corr.append((r[3], r[4], r[1], r[2], sv, repr(mv)))
    return n, bad, known, (len(reqs), corr)


def pipeline_compat(ctx):
    import itertools as it
    quick = ctx.tier == 'quick'
    wtoks = ['a', 'b', ' ', '\n', '...', '<BLANKLINE>', "'", 'True', '1'] + ([] if quick else ['\t', 'u', '"', '0', 'False'])
    # (outputs that hold the marker text itself, carriage returns and colour codes: recorded classes F6g, F6h, F6i)
    wtoks += ['\r', '\x1b[0m'] if not quick else []
    gtoks = list(wtoks)
    W = sorted({''.join(t) for n in range(0, 4) for t in it.product(wtoks, repeat=n)})
    G = sorted({''.join(t) for n in range(0, 4) for t in it.product(gtoks, repeat=n)})
    jobs = [(W[i:i + 40], G) for i in range(0, len(W), 40)]
    total, seen = 0, {}
    ncorr = 0
    for n, bad, known, (nc, corr) in common.pmap(_pipeline_worker, jobs):
        total += n
        ncorr += nc
        for want, got, e, nw, sv, mv in corr:
            if len([v for v in ctx.violations if v['kind'] == 'std-output-correspondence']) < 3:
                ctx.violation('std-output-correspondence', {'what': 'doctest.OutputChecker().check_output(want, got, ELLIPSIS=%s NORMALIZE_WHITESPACE=%s) = %s, the model std_check_output says %s' % (e, nw, sv, mv),
                              'want': want, 'got': got, 'e': e, 'n': nw, 'theorem_or_correspondence': 'correspondence std_check_output / CPython doctest.OutputChecker (feeds C20_std_output_accepted)'}, False)
        for k, v in known.items():
            seen[k] = seen.get(k, 0) + v
        for want, got, fl in bad:
            if len([v for v in ctx.violations if v['kind'] == 'output-incompatible']) < 5:
                ctx.violation('output-incompatible', {'what': 'doctest.OutputChecker().check_output(want, got, flags=%d) accepts, xdoctest checker.check_output(got, want) in its default state does not' % fl,
                              'want': want, 'got': got, 'std_flags': fl, 'theorem_or_correspondence': 'C20 on checker.check_output (standard OutputChecker as oracle)'}, True)
    ctx.evaluations += total
    ctx.count('output_pairs_x_flags', total)
    ctx.count('std_output_model_correspondence_evaluations', ncorr)
    for k, v in seen.items():
        ctx.count('output_pairs_in_known_class_' + k, v)


def _exc_worker(args):
    wants, gots = args
    import doctest as std
    from xdoctest import checker, directive
    oc = std.OutputChecker()

    def std_ok(want_msg, got_msg, fl):
        if oc.check_output(want_msg, got_msg, fl):
            return True
        if fl & std.IGNORE_EXCEPTION_DETAIL:
            return oc.check_output(std._strip_exception_details(want_msg), std._strip_exception_details(got_msg), fl)
        return False
    bad, n = [], 0
    for fl, st in ((0, {}), (std.ELLIPSIS, {}), (std.IGNORE_EXCEPTION_DETAIL, {'IGNORE_EXCEPTION_DETAIL': True}),
                   (std.IGNORE_EXCEPTION_DETAIL | std.ELLIPSIS, {'IGNORE_EXCEPTION_DETAIL': True})):
        rs = directive.RuntimeState(st)
        for w in wants:
            for g in gots:
                n += 1
                if std_ok(w + '\n', g + '\n', fl):
                    try:
                        xv = checker.check_exception(g + '\n', 'Traceback (most recent call last):\n' + w + '\n', rs)
                    except Exception as e:
                        xv = 'raised %s' % type(e).__name__
                    if xv is not True and len(bad) < 5:
                        bad.append((w, g, fl, repr(xv)))
    return n, bad


def exception_compat(ctx):
    """expected tracebacks: whenever the standard module accepts the final 'Type: message' line of a want for the raised exception
    (exactly, with ELLIPSIS, or by type alone under IGNORE_EXCEPTION_DETAIL), checker.check_exception does"""
    import itertools as it
    toks = ['ValueError', 'pkg.mod.Err', 'Err', ': ', ':', 'msg', ' ', '...', 'a', '.', '\n  more'] + ([] if ctx.tier == 'quick' else ['KeyError', "'", '1', '('])
    S = sorted({''.join(t) for n in range(1, 4) for t in it.product(toks, repeat=n)})
    S = [s for s in S if s[0].isalpha()]
    jobs = [(S[i:i + 30], S) for i in range(0, len(S), 30)]
    total = 0
    for n, bad in common.pmap(_exc_worker, jobs):
        total += n
        for w, g, fl, xv in bad:
            if len([v for v in ctx.violations if v['kind'] == 'exception-incompatible']) < 5:
                ctx.violation('exception-incompatible', {'what': 'the standard module accepts the expected exception line %r for the raised %r (flags %d), checker.check_exception gives %s' % (w, g, fl, xv),
                              'want_line': w, 'got_line': g, 'std_flags': fl, 'theorem_or_correspondence': 'C20 on checker.check_exception (standard exception matching as oracle)'}, True)
    ctx.evaluations += total
    ctx.count('exception_lines_x_flags', total)


MODULE_TEXTS = {
    # the module's own __future__ imports apply to its examples (the standard module takes the compiler flags from the module's globals)
    'future_annotations': ("from __future__ import annotations\n\n\ndef f():\n    \"\"\"\n    >>> def g(x: Undefined1) -> Undefined2:\n    ...     return x\n"
                           "    >>> sorted(g.__annotations__.items())\n    [('return', 'Undefined2'), ('x', 'Undefined1')]\n    >>> g(3)\n    3\n    \"\"\"\n\n\n"
                           "class K:\n    \"\"\"\n    >>> class C:\n    ...     a: Missing = 1\n    >>> C.__annotations__\n    {'a': 'Missing'}\n    \"\"\"\n"),
    'future_annotations_and_more': ("\"\"\"Module docstring.\n\n>>> v: NotDefinedAnywhere = 5\n>>> v\n5\n\"\"\"\nfrom __future__ import annotations, generator_stop\n\n\n"
                                    "def h(a: int) -> int:\n    \"\"\"\n    >>> h.__annotations__\n    {'a': 'int', 'return': 'int'}\n    >>> def inner(q: Later): pass\n    >>> inner.__annotations__\n    {'q': 'Later'}\n    \"\"\"\n    return a\n"),
    'no_future': ("def p():\n    \"\"\"\n    >>> def g(x: int) -> int:\n    ...     return x\n    >>> g.__annotations__['x'] is int\n    True\n    \"\"\"\n\n\n"
                  "def q():\n    \"\"\"\n    >>> def bad(x: Undefined3): pass\n    Traceback (most recent call last):\n    NameError: name 'Undefined3' is not defined\n    \"\"\"\n"),
}


def module_compat(ctx):
    """whole modules: what doctest's finder and runner pass for a module file, xdoctest collects from that file and passes"""
    import importlib.util
    import shutil
    import tempfile
    from xdoctest import core
    tmp = tempfile.mkdtemp(prefix='xdverif_c20_')
    try:
        for name, text in sorted(MODULE_TEXTS.items()):
            modname = 'xdverif_c20_%s' % name
            path = os.path.join(tmp, modname + '.py')
            open(path, 'w').write(text)
            spec = importlib.util.spec_from_file_location(modname, path)
            mod = importlib.util.module_from_spec(spec)
            sys.modules[modname] = mod
            try:
                spec.loader.exec_module(mod)
                std = {}
                for test in doctest.DocTestFinder(exclude_empty=True).find(mod, modname):
                    runner = doctest.DocTestRunner(verbose=False, optionflags=0)
                    with contextlib.redirect_stdout(io.StringIO()):
                        r = runner.run(test, out=lambda s: None, clear_globs=True)
                    short = test.name[len(modname) + 1:] or '__doc__'
                    std[short] = r.failed == 0 and r.attempted > 0
                xd = {}
                with warnings.catch_warnings():
                    warnings.simplefilter('ignore')
                    for ex in core.parse_doctestables(path, analysis='static'):
                        ex.mode = 'native'
                        so = sys.stdout
                        try:
                            summ = ex.run(on_error='return', verbose=0)
                            xd[ex.callname] = 'passed' if summ['passed'] else ('failed:' + type(summ['exc_info'][1]).__name__ if summ['failed'] else 'skipped')
                        except BaseException as e:      # noqa
                            xd[ex.callname] = 'escaped:' + type(e).__name__
                        finally:
                            sys.stdout = so
            finally:
                sys.modules.pop(modname, None)
            for k, ok in sorted(std.items()):
                ctx.evaluations += 1
                if ok:
                    ctx.nontrivial += 1
                    if xd.get(k) != 'passed':
                        ctx.violation('incompatible', {'what': 'the doctest of %s in module %r passes under the standard doctest module (finder + runner on the imported module) '
                                                               'but xdoctest reports %s' % (k, name, xd.get(k, 'not collected')), 'module_source': text, 'module_kind': name,
                                                       'theorem_or_correspondence': 'C20: standard doctest module as oracle, on a module file'}, True)
            ctx.count('module_compat:%s:std_passing' % name, sum(1 for v in std.values() if v))
        if not any(v for v in std.values()):
            raise RuntimeError('module_compat: the standard module passes nothing (harness defect)')
    finally:
        shutil.rmtree(tmp, ignore_errors=True)


def run(ctx):
    ellipsis_compat(ctx)
    module_compat(ctx)
    pipeline_compat(ctx)
    exception_compat(ctx)
    rng = ctx.rng('std')
    docs = [gen_doctest(rng) for _ in range(2500 if ctx.tier == 'quick' else 40000)]
    chunks = [docs[i:i + 100] for i in range(0, len(docs), 100)]
    results = [r for ch in common.pmap(_worker, chunks) for r in ch]
    nv = 0
    for d, (st, res, strace, xtrace) in zip(docs, results):
        ctx.evaluations += 1
        ctx.count('std:' + st)
        if st != 'std-passes':
            continue
        ctx.nontrivial += 1
        ctx.count('xdoctest:' + res.split(':')[0])
        problem = None
        if res == 'not-collected':
            problem = 'passes under the standard doctest module but is not collected (parse error) by xdoctest'
        elif res != 'passed' and not (res == 'skipped' and not strace):
            problem = 'passes under the standard doctest module but xdoctest reports %s' % res
        elif strace != xtrace:
            problem = 'examples executed by the standard module %r, by xdoctest %r' % (strace, xtrace)
        if problem and nv < 5:
            nv += 1
            ctx.violation('incompatible', {'what': problem, 'doctest': d, 'theorem_or_correspondence': 'C20: standard doctest module as oracle'}, True)
    # fixed texts in standard syntax whose result depends on how TAB characters behind the common indentation are expanded (both modules
    # expand tabs over the whole docstring BEFORE anything else): the standard module passes them, so must xdoctest
    for d in TAB_DOCS:
        ok, strace, _ = run_std(d)
        res, xtrace = run_xd(d)
        ctx.evaluations += 1
        if ok and res != 'passed' and nv < 8:
            nv += 1
            ctx.violation('incompatible', {'what': 'passes under the standard doctest module but xdoctest reports %s (a TAB behind the indentation)' % res, 'doctest': d,
                          'theorem_or_correspondence': 'C20: standard doctest module as oracle'}, True)
        elif not ok:
            ctx.notes.append('a tab text does not pass under the standard module (harness): %r' % d[:60])
    # the recorded classes, re-evaluated on the real code every run
    known = {e['id']: e for e in common.load_known_findings('C20')}
    for cid, d in CLASS_DOCS.items():
        ok, strace, _ = run_std(d)
        res, xtrace = run_xd(d)
        ctx.evaluations += 1
        still = ok and (res != 'passed')
        if still and cid in known:
            ctx.known_finding('%s %s; e.g. doctest=%r (xdoctest: %s)' % (cid, known[cid]['what'], d, res))
        elif still:
            ctx.violation('incompatible', {'what': 'class %s: passes under the standard module, xdoctest %s' % (cid, res), 'doctest': d,
                          'theorem_or_correspondence': 'C20 recorded class not listed as known'}, True)
        else:
            ctx.notes.append('class %s no longer reproduces (std ok=%s, xdoctest %s)' % (cid, ok, res))
    ctx.add_rule('%d doctests generated in standard syntax (assignments, prints incl. blank lines, echoed expression values, None results, multi-line literals, loops, defs, '
                 'semicolon lines, comments, raising examples with traceback wants, # doctest: +SKIP / +ELLIPSIS / +NORMALIZE_WHITESPACE / +IGNORE_EXCEPTION_DETAIL, '
                 'triple-quoted strings, bare ... terminators, blank-line and prose separation, indentation) with wants produced by REPL execution; only texts the '
                 'standard DocTestRunner(optionflags=0) passes count (non-trivial); plus the recorded incompatibility classes; ELLIPSIS matcher: every want with a marker up to length 6/7 over {a . blank newline} '
                 'x every got up to length 5/6 + seeded multi-marker wants: CPython doctest._ellipsis_match vs the model of it, and std accepts => checker._ellipsis_match accepts' % len(docs))
    ctx.sample({'doctest': docs[1]})
    ctx.sample({'doctest': docs[-1]})
    ctx.assumptions += ['Guard20: the generator avoids the recorded classes F6 (an expression example that both prints and has a non-None value), F6b (expected SyntaxError at compile time), '
                        'F6c (expected SystemExit), F6d (True accepted for 1), F6e (adjacent examples of different indentation), F6f (prefix letter in front of a wildcard), F6g (output holds the text <BLANKLINE>), F6h (carriage returns), F6i (colour codes next to dots), F6j (one-line compound statements that echo), F6k (comment-only continuation line at column 0); they are re-evaluated separately every run',
                        'the standard library doctest module of CPython 3.12 is the oracle']


def replay(path):
    d = json.load(open(path))
    if d.get('kind') == 'exception-incompatible':
        n, bad = _exc_worker(([d['want_line']], [d['got_line']]))
        print('want line %r, raised %r: %s' % (d['want_line'], d['got_line'], bad or 'accepted by both'))
        if bad:
            print('VIOLATION property=C20 replay=%s' % path)
            return 1
        return 0
    if d.get('kind') == 'output-incompatible':
        import doctest as std
        from xdoctest import checker, directive
        sv = bool(std.OutputChecker().check_output(d['want'], d['got'], d['std_flags']))
        xv = bool(checker.check_output(d['got'], d['want'], directive.RuntimeState()))
        print('want=%r got=%r flags=%r: standard=%s xdoctest=%s' % (d['want'], d['got'], d['std_flags'], sv, xv))
        if sv and not xv:
            print('VIOLATION property=C20 replay=%s' % path)
            return 1
        return 0
    if 'want' in d and 'got' in d:
        import doctest as std
        from xdoctest import checker
        sv = bool(std._ellipsis_match(d['want'], d['got']))
        mv = common.model_call('std_ellipsis_match', d['want'], d['got'])
        xv = bool(checker._ellipsis_match(d['got'], d['want']))
        print('want=%r got=%r std=%s model-of-std=%s xdoctest=%s' % (d['want'], d['got'], sv, mv, xv))
        if sv != bool(mv) or (sv and not xv):
            print('VIOLATION property=C20 replay=%s' % path)
            return 1
        return 0
    doc = d['doctest']
    ok, strace, att = run_std(doc)
    res, xtrace = run_xd(doc)
    print('doctest:\n%s\nstandard module passes=%s trace=%r\nxdoctest=%s trace=%r' % (doc, ok, strace, res, xtrace))
    if ok and (res != 'passed' or strace != xtrace):
        print('VIOLATION property=C20 replay=%s' % path)
        return 1
    return 0
