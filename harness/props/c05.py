"""C05 — Output matching equals the documented relation for every flag combination.

Theorems: Props/C05.v (check_output = MatchRel for all texts/flags; identical; strict exact;
monotone under MonoGuard; monotone refuted outside it (F7); nonws).
Correspondence: every normalisation step against the real re/str call, exhaustively over
step-specific alphabets; check_output under all 32 flag settings over all small pairs and
seeded random structured pairs.
Search: the monotonicity clause is evaluated on the implementation; a flip inside MonoGuard,
or one the bug-for-bug model does not reproduce, is a violation; flips outside MonoGuard
that the model reproduces are the recorded finding F7.
"""
import itertools
import json
import re

from harness import common
from harness.common import Sym

NAMES = ['ELLIPSIS', 'NORMALIZE_WHITESPACE', 'IGNORE_WHITESPACE', 'NORMALIZE_REPR', 'DONT_ACCEPT_BLANKLINE']
LEN_NAMES = NAMES[:4]


def _mods():
    from xdoctest import checker, directive, utils
    return checker, directive, utils


def runstate(i):
    _, directive, _ = _mods()
    return directive.RuntimeState({n: bool((i >> k) & 1) for k, n in enumerate(NAMES)})


def flags_list(i):
    return [bool((i >> k) & 1) for k in range(5)] + [False, False]


def mono_guard(i, k):
    """MonoGuard fl f of Spec/MatchRel.v for flag setting i and leniency index k"""
    e, nr = bool(i & 1), bool(i & 8)
    if k == 0:
        return not nr
    if k in (1, 2):
        return (not e) and (not nr)
    return not e


_STATES = None


def impl_bits(got, want):
    global _STATES
    checker, _, _ = _mods()
    if _STATES is None:
        _STATES = [runstate(i) for i in range(32)]
    return ''.join(_co_bit(checker, got, want, st) for st in _STATES)


def _co_bit(checker, got, want, st):
    """'1' / '0', or 'E' when check_output raises instead of answering"""
    try:
        return '1' if checker.check_output(got, want, st) else '0'
    except Exception:      # noqa
        return 'E'


def _pairs_worker(pairs):
    ans = common.model_batch([('check_output_allflags', g, w) for g, w in pairs], raw=True)
    out = []
    for (g, w), a in zip(pairs, ans):
        b = impl_bits(g, w)
        out.append((b, a))
    return out


def _pollute():
    """what happens in every process that ran a doctest before: some OTHER RuntimeState was last updated with inline directives"""
    from xdoctest import directive
    rs = directive.RuntimeState()
    rs.update([directive.Directive('ELLIPSIS', False, inline=True), directive.Directive('NORMALIZE_REPR', False, inline=True),
               directive.Directive('NORMALIZE_WHITESPACE', False, inline=True), directive.Directive('DONT_ACCEPT_BLANKLINE', True, inline=True),
               directive.Directive('IGNORE_WHITESPACE', True, inline=True)])
    return rs


def _pairs_worker_after_inline(pairs):
    """the same comparison, with fresh RuntimeState objects, after another RuntimeState got an inline update (kept alive)"""
    global _STATES
    keep = _pollute()
    _STATES = None
    try:
        return _pairs_worker(pairs)
    finally:
        _STATES = None
        del keep


def _reported_states():
    """the 32 states, each after it was used for a comparison that failed and for rendering that failure (what a caller does
    that goes on comparing with its state after a failed example: the report must not change the state it is given)"""
    checker, _, _ = _mods()
    sts = [runstate(i) for i in range(32)]
    for st in sts:
        try:
            checker.check_got_vs_want('spam\n', 'eggs\n', runstate=st)
        except checker.GotWantException as ex:
            ex.output_difference(st, colored=False)
            ex.output_difference(st, colored=True)
            ex.output_repr_difference(st)
    return sts


def _directive_states():
    """the 32 flag settings reached the way a doctest reaches them: one directive comment that lists all five flags, behind directives
    that leave nothing to apply (a requirement that is met, a report style) - every directive of the comment counts"""
    _, directive, _ = _mods()
    sts = []
    for i in range(32):
        st = directive.RuntimeState()
        ds = [directive.Directive('REQUIRES', True, ['module:sys']), directive.Directive('REPORT_UDIFF', True)] if i % 2 else [directive.Directive('REQUIRES', True, ['module:os'])]
        ds += [directive.Directive(n, bool((i >> k) & 1)) for k, n in enumerate(NAMES)]
        if i % 3 == 0:
            ds.append(directive.Directive('REQUIRES', False, ['module:sys']))
        st.update(ds)
        sts.append(st)
    return sts


def _pairs_worker_via_directives(pairs):
    global _STATES
    _STATES = _directive_states()
    try:
        return _pairs_worker(pairs)
    finally:
        _STATES = None


def _pairs_worker_after_report(pairs):
    """the same comparison with RuntimeState objects that were handed to GotWantException's report functions before"""
    global _STATES
    _STATES = _reported_states()
    try:
        return _pairs_worker(pairs)
    finally:
        _STATES = None


def analyse(ctx, pairs, results, where):
    """compare verdict vectors, then evaluate the monotonicity clause on the implementation"""
    n_match = 0
    for (g, w), (b, a) in zip(pairs, results):
        n_match += b.count('1')
        if b != a:
            i = next(k for k in range(32) if b[k] != a[k])
            payload = {
                'what': 'check_output(got, want, flags) departs from the documented relation (model proved equal to MatchRel)',
                'got': g, 'want': w, 'flags': dict(zip(NAMES, flags_list(i)[:5])),
                'impl': b[i] == '1', 'model': a[i] == '1', 'impl_bits': b, 'model_bits': a, 'where': where,
                'theorem_or_correspondence': 'correspondence check_output + C05_relation',
            }
            ctx.corr_failures.append(payload)
            if len([v for v in ctx.violations if v['kind'] == 'relation']) < 5:
                ctx.violation('relation', payload, found_input=True)
        if not w:
            continue
        # monotonicity on the implementation
        for i in range(32):
            if b[i] != '1':
                continue
            for k in range(4):
                if (i >> k) & 1:
                    continue
                j = i | (1 << k)
                if b[j] == '0':
                    ctx.count('monotone_flips_impl')
                    known = (not mono_guard(i, k)) and a[i] == '1' and a[j] == '0'
                    entry = KNOWN.get(LEN_NAMES[k])
                    if known and entry is not None:
                        ctx.count('F7:' + LEN_NAMES[k])
                        ctx.known_finding(known_line(entry))
                    else:
                        if len([v for v in ctx.violations if v['kind'] == 'monotone']) < 5:
                            ctx.violation('monotone', {
                                'what': 'switching a leniency on turned a match into a mismatch (inside MonoGuard or not reproduced by the model)',
                                'got': g, 'want': w, 'flags_before': dict(zip(NAMES, flags_list(i)[:5])),
                                'switched_on': LEN_NAMES[k], 'where': where,
                                'theorem_or_correspondence': 'C05_monotone_partial'}, found_input=True)
    return n_match


KNOWN = {}


def known_line(entry):
    w = entry['witness']
    return '%s %s; witness got=%r want=%r flags=%s + %s' % (
        entry['id'], entry['what'], w['got'], w['want'], '+'.join(w['flags_before']), w['switched_on'])


def check_listed_findings(ctx):
    """every listed finding is re-evaluated on the implementation on each run"""
    checker, directive, _ = _mods()
    for e in common.load_known_findings('C05'):
        KNOWN[e['witness']['switched_on']] = e
        w = e['witness']
        base = {n: False for n in NAMES}
        for n in w['flags_before']:
            base[n] = True
        after = dict(base)
        after[w['switched_on']] = True
        v0 = checker.check_output(w['got'], w['want'], directive.RuntimeState(base))
        v1 = checker.check_output(w['got'], w['want'], directive.RuntimeState(after))
        ctx.evaluations += 2
        if v0 and not v1:
            ctx.known_finding(known_line(e))


def run(ctx):
    checker, directive, utils = _mods()
    quick = ctx.tier == 'quick'
    B = checker.BLANKLINE_MARKER
    check_listed_findings(ctx)
    # the relation as DoctestPart.check applies it (check_got_vs_want: stdout, then the value's repr): got is got and want is want
    # on every path, under one and the same flags
    from harness.props import c02
    c02.gvw_unit(ctx)

    # ---- step level -------------------------------------------------------
    L = 6 if quick else 7
    steps = [
        ('strip_ansi', 'strip_ansi', utils.strip_ansi, '\x1b[0;m Ka\x9b', L),
        ('rm_prefix_u', 'rm_prefix_u', lambda s: re.sub(checker.unicode_literal_re, r'\1\2', s), 'uUrb\'"a \xe9', L),       # \xe9: a word character outside ASCII in front of the prefix letter
        ('rm_prefix_b', 'rm_prefix_b', lambda s: re.sub(checker.bytes_literal_re, r'\1\2', s), 'bBR\'"a \xe9_', L),
        ('rm_trailing_ws', 'rm_trailing_ws', lambda s: re.sub(checker.TRAILING_WS, '', s), 'a \t\n\r', L + 1),
        ('drop_cr_lines', 'drop_cr_lines',
         lambda s: ''.join(l for l in s.splitlines(True) if not l.endswith('\r')), 'a\r\n \x0c\x1c\x85', L),
        ('collapse_ws', 'collapse_ws', lambda s: ' '.join(s.split()), 'ab \n\t\xa0', L),
        ('delete_ws', 'delete_ws', lambda s: re.sub(r'\s', '', s, flags=re.MULTILINE), 'ab \n\t\xa0\x1f', L),
        ('rstrip', 'rstrip', lambda s: s.rstrip(), 'a \n\t\x1c', L),
    ]
    for name, mfn, ifn, alpha, ml in steps:
        bad = common.exhaustive_step(ctx, name, mfn, ifn, alpha, ml)
        for s, m, i in bad:
            ctx.corr_failures.append({'step': name, 'input': s})
            ctx.violation('step-' + name, {
                'what': 'normalisation step %s differs from its model on this text' % name,
                'input': s, 'impl': i, 'model': m,
                'theorem_or_correspondence': 'step correspondence %s (feeds C05_relation)' % name}, found_input=True)
    # <BLANKLINE> as one symbol
    syms = [B, '\n', 'a', ' ', '<', 'B']
    strs = [''.join(t) for n in range(0, 6 if quick else 7) for t in itertools.product(syms, repeat=n)]
    ans = common.model_batch([('rm_blankline', s) for s in strs])
    ctx.evaluations += len(strs)
    nb = 0
    for s, a in zip(strs, ans):
        r = checker.remove_blankline_marker(s)
        nb += r != s
        if a != r:
            ctx.violation('step-rm_blankline', {'input': s, 'impl': r, 'model': a,
                          'what': 'remove_blankline_marker differs from its model',
                          'theorem_or_correspondence': 'step correspondence rm_blankline'}, found_input=True)
            break
    ctx.nontrivial += nb
    ctx.count('step:rm_blankline:strings', len(strs))
    ctx.add_rule('each of the 9 normalisation steps vs the real re/str call, all strings up to length %d over a step-specific alphabet' % L)

    # ---- whole relation, exhaustive ---------------------------------------
    alpha = "a \n.'"
    mg, mw = (3, 4) if quick else (4, 5)
    gots = list(common.iter_strings(alpha, mg))
    wants = list(common.iter_strings(alpha, mw))
    pairs = [(g, w) for w in wants for g in gots]
    # plus blank-line / prefix / CR / ANSI flavoured symbols over shorter lengths
    syms2 = [B, '\n', 'a', ' ', "u'", '\r', '...', '\x1b[0m', '\t']
    texts2 = [''.join(t) for n in range(0, 3 if quick else 4) for t in itertools.product(syms2, repeat=n)]
    pairs += [(g, w) for w in texts2 for g in texts2]
    chunks = [pairs[i:i + 1500] for i in range(0, len(pairs), 1500)]
    results = [r for ch in common.pmap(_pairs_worker, chunks) for r in ch]
    n_match = analyse(ctx, pairs, results, 'exhaustive')
    ctx.evaluations += len(pairs) * 32
    distinct = len(set(pairs))
    ctx.nontrivial += sum(1 for (g, w) in set(pairs) if w and g != w) * 32
    ctx.count('exhaustive_pairs', distinct)
    ctx.count('exhaustive_verdicts_true', n_match)
    ctx.exhaustive = True
    ctx.add_rule('check_output under all 32 settings of (%s): every pair over %r with |got|<=%d,|want|<=%d, and every pair of '
                 'texts of <=%d symbols from %r; non-trivial = want non-empty and got != want (past both shortcuts)'
                 % (','.join(NAMES), alpha, mg, mw, 2 if quick else 3, syms2))
    ctx.sample({'got': ".a", 'want': '. ...', 'impl_bits_over_32_flag_settings': impl_bits('.a', '. ...')})

    # ---- the flags of a comparison are those handed to it: not what some other RuntimeState of the process was last told inline ----
    sample = pairs[::max(1, len(pairs) // 4000)] + [(g, w) for g, w in (('abc', 'a...'), ("'abc'", 'abc'), ('a\n\nb', 'a\n' + B + '\nb'), ('a  b', 'a b'))]
    chunks = [sample[i:i + 500] for i in range(0, len(sample), 500)]
    results_p = [r for ch in common.pmap(_pairs_worker_after_inline, chunks) for r in ch]
    analyse(ctx, sample, results_p, 'after an inline update of another RuntimeState')
    ctx.evaluations += len(sample) * 32
    ctx.count('pairs_after_inline_update_elsewhere', len(sample))
    results_d = [r for ch in common.pmap(_pairs_worker_via_directives, chunks) for r in ch]
    analyse(ctx, sample, results_d, 'with states whose flags were set by one directive comment listing all of them behind a met REQUIRES / a report style')
    ctx.evaluations += len(sample) * 32
    ctx.count('pairs_with_flags_set_by_a_directive_comment', len(sample))
    results_r = [r for ch in common.pmap(_pairs_worker_after_report, chunks) for r in ch]
    analyse(ctx, sample, results_r, 'with states that were handed to the failure report (output_difference) before')
    ctx.evaluations += len(sample) * 32
    ctx.count('pairs_after_failure_report_on_same_state', len(sample))

    # ---- wildcard stratum: wants built from 2..3 literal pieces around '...' ------------
    pieces = ['', 'a', 'b', 'ab', 'a b', 'b\na']
    seps = ['...', ' ... ', '...\n']
    wants_w = []
    for n_mark in (1, 2, 3):
        for ps in itertools.product(pieces, repeat=n_mark + 1):
            for sp in (seps if not quick else seps[:2]):
                wants_w.append(sp.join(ps))
    wants_w = sorted(set(wants_w))
    gots_w = list(common.iter_strings('ab \n', 3 if quick else 4)) + ['ab ab', 'a b a b', 'abab', 'b\na\nb\na', 'ab\nab']
    if quick:
        rngw = ctx.rng('wild')
        wants_w = rngw.sample(wants_w, min(len(wants_w), 500))
    wp = [(g, w) for w in wants_w for g in gots_w]
    # characters that merely LOOK like others or have a compatibility decomposition (superscripts, ordinal indicators, the micro
    # sign, fractions, the no-break space, ligatures, full-width letters, the one-character ellipsis): different characters
    # are different text, under every flag setting
    looks = [('\xb2', '2'), ('\xb3', '3'), ('\xb9', '1'), ('\xaa', 'a'), ('\xba', 'o'), ('\xb5', '\u03bc'), ('\xbd', '1/2'), ('\xa0', ' '),
             ('\ufb01', 'fi'), ('\uff41', 'a'), ('\u2026', '...'), ('\u2460', '1'), ('\xe9', 'e\u0301')]
    for a, b in looks:
        for frame in ('m%s', 'x = 25 m%s end', '%s', 'a %s b\nc', 'k%sk ...', 'a...%s'):
            for x, y in ((a, b), (b, a), (a, a)):
                wp.append((frame % x, frame % y))
    # wildcards next to whitespace other than blank / tab / newline (CRLF text, form feeds, no-break spaces ...): a wildcard absorbs
    # the whitespace around it, so the got may be SHORTER than the literal characters of the want
    for ws in ['\r', '\r\n', '\x0c', '\x0b', '\xa0', '\x85', '\x1c', '\u2028', '\u3000']:
        for p0 in ('a', 'ab', ''):
            for p1 in ('b', 'a b', ''):
                for w in (p0 + ws + '...' + ws + p1, p0 + ws + '...' + p1, p0 + '...' + ws + ws + p1):
                    for mid in ('', ws, ws + ws, ' ', '\n', ws + 'a' + ws, 'a'):
                        wp.append((p0 + mid + p1, w))
    chunks = [wp[i:i + 1500] for i in range(0, len(wp), 1500)]
    results = [r for ch in common.pmap(_pairs_worker, chunks) for r in ch]
    analyse(ctx, wp, results, 'wildcards')
    ctx.evaluations += len(wp) * 32
    ctx.nontrivial += sum(1 for (g, w) in set(wp) if w and g != w) * 32
    ctx.count('wildcard_pairs', len(wp))
    ctx.add_rule('wants with 1..3 wildcards built from %d literal pieces and %d separator spellings x every got over {a,b,space,newline} up to length %d (pieces that recur in the suffix, overlapping candidates)'
                 % (len(pieces), len(seps), 3 if quick else 4))

    # ---- random structured pairs -------------------------------------------
    rng = ctx.rng('structured')
    n = 3000 if quick else 40000
    rp = []
    atoms = ['a', 'b', '1', ' ', '  ', '\n', '\t', '.', '...', "'", '"', "u'", "b'", 'x', ', ', '{', '}', B, B + '\n',
             '\x1b[31m', '\x1b[0m', '\r', '\r\n', ':', '<', 'ur"', ' \n', '\xa0', '\u2028', '\u3000', '\x0c', '\x1c', '\x85', '\xe9', '\xdf',
             '\x1b[1;32m', "U'", 'Rb"', "bR'", "\xe9b'", '\xb5u"', "\xdfB'", "_b'"]     # word characters of Latin-1 (the model's character classes end at 255)
    for _ in range(n):
        want = ''.join(rng.choice(atoms) for _ in range(rng.randint(1, 12)))
        got = want
        for _k in range(rng.randint(0, 3)):
            r = rng.random()
            if r < 0.2:      # inverse of trailing ws / collapse
                got = got.replace(' ', rng.choice(['  ', ' \t', '\n', ' ']), 1)
            elif r < 0.35:   # inverse of prefix / quotes
                got = rng.choice(["'", '"', "u'", '']) + got + rng.choice(["'", '"', ''])
            elif r < 0.5:    # inverse of blankline
                got = got.replace(B, '', 1)
            elif r < 0.65:   # inverse of ellipsis
                got = got.replace('...', rng.choice(['zz', '', 'a b', '. .']), 1)
            elif r < 0.8 and got:
                k = rng.randrange(len(got))
                got = got[:k] + rng.choice(atoms) + got[k + 1:]
            elif r < 0.9:
                got = got + rng.choice([' ', '\n', '\t\n', 'x'])
            else:
                got = '\x1b[1m' + got
        rp.append((got, want))
    chunks = [rp[i:i + 500] for i in range(0, len(rp), 500)]
    results = [r for ch in common.pmap(_pairs_worker, chunks) for r in ch]
    analyse(ctx, rp, results, 'random')
    ctx.evaluations += len(rp) * 32
    ctx.nontrivial += sum(1 for (g, w) in set(rp) if w and g != w) * 32
    ctx.count('random_pairs', len(rp))
    ctx.sample({'random_pair': rp[0], 'impl_bits': results[0][0]})
    ctx.add_rule('%d seeded random pairs built from atoms (prefixes, quotes, ANSI, <BLANKLINE>, CR, dots); got derived from want by inverse leniencies and single mutations' % n)

    # ---- repetition: every special token many times (regex calls with a count / maxsplit limit show only here) ----
    reps = []
    for n_rep in ((9, 12, 33) if quick else (9, 10, 12, 17, 33, 65, 130)):
        lines = ['l%d' % i for i in range(n_rep)]
        reps.append(('\n\n'.join(lines), ('\n' + B + '\n').join(lines)))                     # <BLANKLINE> markers
        reps.append(('\n'.join(lines + [B] * 2), '\n'.join(lines + [B] * 2)))
        reps.append((''.join('\x1b[3%dm%s\x1b[0m ' % (i % 8, l) for i, l in enumerate(lines)), ' '.join(lines) + ' '))   # ANSI
        reps.append(('\n'.join(l + ' \t' for l in lines), '\n'.join(lines)))                  # trailing whitespace per line
        reps.append((' '.join(lines), '  \t '.join(lines)))                                   # runs of whitespace
        reps.append((' '.join(l + ' zz' for l in lines), ' ... '.join(lines) + ' ...'))        # wildcards
        reps.append((' '.join(l + ' zz' for l in lines[:-1]), ' ... '.join(lines)))            # ... one piece missing
        reps.append(('\r\n'.join(lines), '\n'.join(lines)))                                    # carriage returns
        reps.append((', '.join("'%s'" % l for l in lines), ', '.join('"%s"' % l for l in lines)))   # quotes
        reps.append((', '.join("u'%s'" % l for l in lines), ', '.join("'%s'" % l for l in lines)))  # prefixes
        reps.append(('[' + ',\n '.join(lines) + ']', '[' + ', '.join(lines) + ']'))
        reps.append((B.join(lines), B.join(lines)))
        reps.append(('\n'.join(lines[:-1] + [B]), ('\n' + B + '\n').join(lines)))             # literal marker in got where the last marker stands
    results = [r for ch in common.pmap(_pairs_worker, [reps[i:i + 20] for i in range(0, len(reps), 20)]) for r in ch]
    analyse(ctx, reps, results, 'repetition')
    ctx.evaluations += len(reps) * 32
    ctx.nontrivial += len(reps) * 32
    ctx.count('repetition_pairs', len(reps))
    ctx.add_rule('%d pairs in which every special token (<BLANKLINE>, ANSI escapes, trailing blanks, blank runs, wildcards, CR, quotes, string prefixes) occurs 9..33/130 times' % len(reps))

    # ---- strict exactness, directly on the implementation (independent of the model) ----
    st = runstate(16)     # all leniencies off, DONT_ACCEPT_BLANKLINE on
    ns = 0
    for w in common.iter_strings('ab \n', 4):
        for g in common.iter_strings('ab \n', 4):
            if not w:
                continue
            ns += 1
            exp = (g == w) or ('\n'.join(l.rstrip(' \t') for l in g.split('\n')).rstrip()
                               == '\n'.join(l.rstrip(' \t') for l in w.split('\n')).rstrip())
            if checker.check_output(g, w, st) != exp:
                ctx.violation('strict-exact', {
                    'what': 'with every leniency off the comparison is not exact up to trailing whitespace',
                    'got': g, 'want': w, 'impl': checker.check_output(g, w, st), 'expected': exp,
                    'theorem_or_correspondence': 'C05_strict_exact'}, found_input=True)
                break
        if any(v['kind'] == 'strict-exact' for v in ctx.violations):
            break
    ctx.evaluations += ns
    ctx.count('strict_pairs', ns)
    ctx.assumptions += [
        'model <-> code tie is the correspondence run of this check (differential, bounded)',
        'alphabet of fidelity: code points 0..255, U+2028, U+3000',
    ]


def replay(path):
    d = json.load(open(path))
    if d.get('kind') == 'gvw-unit':
        from harness.props import c02
        return c02.replay_gvw(d, path, 'C05')
    if 'got' in d and 'want' in d:
        keep = _pollute() if 'inline update' in str(d.get('where', '')) else None
        if 'directive comment' in str(d.get('where', '')):
            global _STATES
            _STATES = _directive_states()
        if 'failure report' in str(d.get('where', '')):
            _STATES = _reported_states()
        b = impl_bits(d['got'], d['want'])
        a = common.model_batch([('check_output_allflags', d['got'], d['want'])], raw=True)[0]
        print('got=%r want=%r\n impl =%s\n model=%s' % (d['got'], d['want'], b, a))
        if a != b:
            print('VIOLATION property=C05 replay=%s' % path)
            return 1
        return 0
    print('replay names no pair:', d.get('theorem_or_correspondence'))
    return 1
