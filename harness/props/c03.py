"""C03 — Exceptions are never swallowed; only a matching expected traceback passes.

Theorems: Props/C03.v (decision table of the raising arm of the run loop, for every position and every
surrounding state).  Correspondence: extract_exc_want / _strip_exception_details / check_exception against the
extracted model on line-structured texts (exhaustive up to 3 lines + seeded longer), and the real DocTest.run
against the run-loop model on a table exception kind x message x position x want form x flags.
Search (model independent): the by-construction expectation of every table cell on the real run.
"""
import itertools
import json
import sys
import warnings

from harness import common, gendoc, runmodel
from harness.common import Sym

PRELUDE = gendoc.PRELUDE + '''
class MyErr(Exception):
    pass
class QualErr(Exception):
    pass
QualErr.__module__ = 'pkg.mod'
class FalsyErr(Exception):
    # an exception object that is false in a boolean context (an "error collection" that happens to be empty):
    # whether an exception was raised never depends on its truth value
    def __bool__(self):
        return False
def deep(k, cls, msg):
    return boom(k, cls, msg)
async def aboom(k, cls, msg):
    return boom(k, cls, msg)
import contextlib as _ctxlib
@_ctxlib.asynccontextmanager
async def actx():
    yield 1
'''

HDR = 'Traceback (most recent call last):'
EXC = {  # name in doctest source -> printed (qualified) name
    'ValueError': 'ValueError', 'KeyError': 'KeyError', 'MyErr': 'MyErr', 'QualErr': 'pkg.mod.QualErr', 'FalsyErr': 'FalsyErr'}
MSGS = ['bad', '', 'a: b', 'l1\nl2', 'x ... y', 'it is 3.5',
        # a message that quotes another traceback
        'worker failed:\nTraceback (most recent call last):\nKeyError: 1', 'see Traceback (most recent call last): above',
        # a report with many fields (a want may elide every value)
        'f1=10 f2=20 f3=30 f4=40 f5=50 f6=60 f7=70 f8=80 f9=90 f10=100 f11=110 f12=120 done',
        # a long report with paragraphs (a want spells the empty lines <BLANKLINE>)
        '\n\n'.join('paragraph %d' % i for i in range(1, 13)),
        # words that end in u / b in front of an apostrophe, after a letter that is not ASCII (no string prefix: part of the word)
        'le caf\xe9u\'s menu and the cl\xfcb"s door']

LINE_SYMS = [HDR, HDR + '  ', HDR + ' junk', 'Traceback (innermost last):', '  File "x", line 1, in f', 'Err: msg',
             'mod.Err: a: b', '...', '', '    word', '_x', '1x', '-x', 'Traceback (most recent call last)']


def last_line(printed, msg):
    """what traceback.format_exception_only(...)[-1] is for our classes (KeyError shows repr(msg))"""
    if printed == 'KeyError':
        return 'KeyError: %r\n' % msg
    if msg == '':
        return printed + '\n'
    return '%s: %s\n' % (printed, msg)


def want_forms(printed, msg, cls):
    ll = last_line(printed, msg).rstrip('\n')
    other = 'KeyError' if cls != 'KeyError' else 'ValueError'
    forms = {
        'none': None,
        'exact': HDR + '\n' + ll,
        'stack': HDR + '\n  File "<stdin>", line 1, in <module>\n    f()\n' + ll,
        'dots': HDR + '\n...\n' + ll,
        'wrongmsg': HDR + '\n' + (ll.split(':')[0] if ':' in ll else ll) + ': completely different',
        'wrongtype': HDR + '\n' + ll.replace(printed, other, 1) if printed != other else None,
        'nontraceback': 'some expected output',
        'finalonly': ll,          # just the 'Type: message' line without a header: not a traceback block
    }
    # a wildcard that elides the middle of the exception's class name (json...Error for json.decoder.JSONDecodeError)
    name = printed.rsplit('.', 1)[-1]
    if len(name) >= 6 and ll.startswith(printed):
        forms['ellipsis_in_type'] = HDR + '\n' + printed[:len(printed) - len(name)] + name[:2] + '...' + name[-3:] + ll[len(printed):]
    if printed.startswith('pkg.mod.'):
        forms['unqualified'] = HDR + '\n' + ll.replace('pkg.mod.', '', 1)
    if '\n\n' in ll:
        # an empty line ends a want: such a message can only be wanted with the marker
        bl = HDR + '\n' + '\n'.join(l if l.strip() else '<BLANKLINE>' for l in ll.split('\n'))
        return {'none': None, 'blanklines': bl, 'nontraceback': 'some expected output',
                'wrongmsg': bl.replace('paragraph 11', 'paragraph eleven')}
    if '\xe9u\'' in ll:
        # the want misspells the word: the letter in front of the apostrophe is missing
        forms['letter_dropped'] = HDR + '\n' + ll.replace('\xe9u\'', '\xe9\'', 1)
        forms['letter_dropped2'] = HDR + '\n' + ll.replace('\xfcb"', '\xfc"', 1)
    if msg.count('=') >= 10:
        # every value elided: as many wildcards as fields
        import re as _re
        forms['manydots'] = HDR + '\n' + _re.sub(r'=\d+', '=...', ll)
    if len(msg) >= 3 and '\n' not in msg:
        cut = len(ll) - 2
        while cut > 1 and not ll[cut - 1].isalnum():
            cut -= 1                       # never put the wildcard directly after a dot or a blank
        forms['ellipsis'] = HDR + '\n' + ll[:cut] + '...'
    return forms


def expected(form, flags, cls, msg):
    """(verdict, failure kind) by construction; None = not asserted (only correspondence)"""
    ied = 'IGNORE_EXCEPTION_DETAIL' in flags
    noell = '-ELLIPSIS' in flags
    if form == 'finalonly' and ('\n' + HDR) in ('\n' + msg):
        return None        # the message itself holds a header line: the want IS a traceback block (for the quoted exception); correspondence only
    if form in ('none', 'nontraceback', 'finalonly'):
        return ('fail', 'exception')
    if form in ('exact', 'stack', 'blanklines'):
        return ('pass', None)
    if form == 'dots':
        return ('pass', None)          # the stack between header and final line is never compared
    if form in ('wrongmsg', 'letter_dropped', 'letter_dropped2'):
        return ('pass', None) if ied else ('fail', 'gotwant')
    if form == 'wrongtype':
        return ('fail', 'gotwant')
    if form == 'unqualified':
        return ('pass', None) if ied else ('fail', 'gotwant')
    if form == 'ellipsis_in_type':
        # the full comparison decides; the type names as written differ, so IGNORE_EXCEPTION_DETAIL adds nothing
        return ('fail', 'gotwant') if noell else ('pass', None)
    if form in ('ellipsis', 'manydots'):
        if noell:
            return ('pass', None) if ied else ('fail', 'gotwant')
        return ('pass', None)
    return None


def build_cases(ctx):
    quick = ctx.tier == 'quick'
    rng = ctx.rng('table')
    cases = []
    flagsets = [[], ['IGNORE_EXCEPTION_DETAIL'], ['-ELLIPSIS'], ['IGNORE_EXCEPTION_DETAIL', '-ELLIPSIS']]
    for cls, printed in EXC.items():
        for msg in MSGS:
            forms = want_forms(printed, msg, cls)
            for form, want in forms.items():
                if form != 'none' and want is None:
                    continue
                for flags in flagsets:
                    for pos, n in ((0, 1), (0, 3), (1, 3), (2, 3)):
                        if not quick or rng.random() < 0.45 or (pos, n) == (1, 3):
                            # (in the middle position also: raised below another frame; raised by an awaited call written over two lines; raised
                            # inside an `async with` block - statements that the doctest's own event loop has to drive)
                            for how in (['boom', 'deep', 'await_ml', 'async_with'] if (pos, n) == (1, 3) else ['boom']):
                                cases.append(make_case(cls, printed, msg, form, want, flags, pos, n, how))
    # exceptions whose rendering has several lines (a syntax error found while the doctest RUNS carries its location):
    # the want's final line is compared with the 'Type: message' line, not with the location lines
    for raising, typ, msg in (("compile('x = = 1', 'f.py', 'exec')", 'SyntaxError', 'invalid syntax'),
                              ("eval('(1,')", 'SyntaxError', "'(' was never closed"),
                              ("compile('if 1:\\n  a = 1\\n    b = 2', 'g.py', 'exec')", 'IndentationError', 'unexpected indent')):
        for flags in flagsets:
            ied = 'IGNORE_EXCEPTION_DETAIL' in flags
            for form, final, exp in (('exact', '%s: %s' % (typ, msg), ('pass', None)),
                                     ('stack', '  File "f.py", line 1\n    x = = 1\n%s: %s' % (typ, msg), ('pass', None)),
                                     ('wrongtype', 'KeyError: %s' % msg, ('fail', 'gotwant')),
                                     ('wrongmsg', '%s: something else' % typ, ('pass', None) if ied else ('fail', 'gotwant'))):
                for pos in (0, 1):
                    stmts = [gendoc.Stmt('assign', 10 + i) for i in range(3)]
                    stmts[pos].lines = ['t(%d) and %s' % (10 + pos, raising)]
                    stmts[pos].is_expr = True
                    doc = directive_lines(flags) + gendoc.render_doc(stmts, {pos: HDR + '\n' + final})
                    allk = [st.k for st in stmts]
                    cases.append(dict(doc=doc, expect=exp, trace=allk if exp[0] == 'pass' else allk[:pos + 1], form='multiline-rendering:' + form,
                                      flags=flags, cls=typ, msg=msg, pos=pos))
    # a traceback want on code that does not raise must fail
    for flags in flagsets:
        stmts = [gendoc.Stmt('print', 10), gendoc.Stmt('assign', 11)]
        doc = directive_lines(flags) + gendoc.render_doc(stmts, {0: HDR + '\nValueError: bad'})
        cases.append(dict(doc=doc, expect=('fail', 'gotwant'), trace=[10], form='tb-on-nonraising', flags=flags))
    return cases


def directive_lines(flags):
    out = ''
    for f in flags:
        out += '>>> # xdoctest: %s\n' % (f if f[0] in '+-' else '+' + f)
    return out


def make_case(cls, printed, msg, form, want, flags, pos, n, how):
    stmts = []
    for i in range(n):
        if i == pos:
            s = gendoc.Stmt('assign', 10 + i)
            if how == 'await_ml':
                s.lines = ['await aboom(%d,' % (10 + i), '            %s, %r)' % (cls, msg)]
                s.is_expr = True
            elif how == 'async_with':
                s.lines = ['async with actx():', '    boom(%d, %s, %r)' % (10 + i, cls, msg)]
            else:
                s.lines = ['%s(%d, %s, %r)' % (how, 10 + i, cls, msg)]
                s.is_expr = True
            stmts.append(s)
        else:
            stmts.append(gendoc.Stmt(['print', 'assign', 'expr'][i % 3], 10 + i))
    wants = {}
    if want is not None:
        wants[pos] = want
    doc = directive_lines(flags) + gendoc.render_doc(stmts, wants)
    exp = expected(form, flags, cls, msg)
    allk = [s.k for s in stmts]
    trace = None
    if exp is not None:
        trace = allk if exp[0] == 'pass' else allk[:pos + 1]
    return dict(doc=doc, expect=exp, trace=trace, form=form, flags=flags, cls=cls, msg=msg, pos=pos)


def expectation_problem(c, impl, ex):
    if impl['end'] != 'summary':
        return 'run(on_error=return) did not return a summary: %s' % impl['end']
    exp = c['expect']
    if exp is None:
        return None
    verdict, kind = exp
    if verdict == 'pass':
        if not impl['passed']:
            return 'a matching expected traceback (%s) did not pass: failure=%s' % (c['form'], impl['failure'])
    else:
        if not impl['failed'] or impl['passed']:
            return 'want form %s: the exception was swallowed (doctest did not fail)' % c['form']
        if impl['failure'] != kind:
            return 'want form %s: failed with %s, expected %s' % (c['form'], impl['failure'], kind)
        if kind == 'exception' and c.get('cls'):
            ev = ex.exc_info[1] if ex.exc_info else None
            if type(ev).__name__ != c['cls']:
                return 'doctest failed with %s instead of the raised %s' % (type(ev).__name__, c['cls'])
    if c['trace'] is not None and impl['trace'] != c['trace']:
        return 'executed statements %r, expected %r' % (impl['trace'], c['trace'])
    return None


def _worker(cases):
    res = runmodel.run_both_many_safe([dict(doc=c['doc'], prelude=PRELUDE) for c in cases])
    return [(impl, model, df, expectation_problem(c, impl, ex)) for c, (impl, model, df, ex) in zip(cases, res)]


def step_level(ctx):
    """extract_exc_want / strip_exception_details / check_exception vs the real functions"""
    from xdoctest import checker, directive
    quick = ctx.tier == 'quick'
    syms = LINE_SYMS + ['    ' + s for s in LINE_SYMS if s]
    texts = ['\n'.join(t) for k in range(1, 3 if quick else 4) for t in itertools.product(syms, repeat=k)]
    rng = ctx.rng('tbtexts')
    texts += ['\n'.join(rng.choice(syms) for _ in range(rng.randint(3, 6))) for _ in range(8000 if quick else 150000)]
    ans = common.model_batch([('extract_exc_want', t) for t in texts])
    nsome = 0
    for t, a in zip(texts, ans):
        r = checker.extract_exc_want(t)
        ctx.evaluations += 1
        if r is not None:
            nsome += 1
        got = None if a is None else (a[1] if isinstance(a, list) else a)
        if got != r:
            ctx.corr_failures.append(t)
            if len([v for v in ctx.violations if v['kind'] == 'extract-exc-want']) < 3:
                ctx.violation('extract-exc-want', {'what': 'extract_exc_want differs from the model', 'text': t,
                              'impl': r, 'model': got, 'theorem_or_correspondence': 'correspondence extract_exc_want'}, False)
    ctx.nontrivial += nsome
    ctx.count('extract_exc_want:texts', len(texts))
    ctx.count('extract_exc_want:is_traceback', nsome)
    msgs = ['ValueError: x', 'a.b.Err: m: n', 'Err', 'a.b', 'a.b:\n', 'x.y.Z: 1.5', '', ':', '.', 'a.b.c\nd.e: f', 'p.q: r.s: t',
            '..', 'a:b.c', 'Err:', 'm.Err\n']
    alpha = 'a.:\n '
    msgs += list(common.iter_strings(alpha, 5 if quick else 6))
    ans = common.model_batch([('strip_exception_details', m) for m in msgs])
    for m, a in zip(msgs, ans):
        r = checker._strip_exception_details(m)
        ctx.evaluations += 1
        if r != m:
            ctx.nontrivial += 1
        if a != r:
            ctx.corr_failures.append(m)
            if len([v for v in ctx.violations if v['kind'] == 'strip-details']) < 3:
                ctx.violation('strip-details', {'what': '_strip_exception_details differs from the model', 'text': m,
                              'impl': r, 'model': a, 'theorem_or_correspondence': 'correspondence strip_exception_details'}, False)
    ctx.count('strip_exception_details:texts', len(msgs))


def _history(docs, shared):
    """the doctests of one run, one after the other, all handed the same default-options dict (as runner and plugin do)"""
    from xdoctest import doctest_example
    import contextlib, io
    res = []
    for doc in docs:
        ex = doctest_example.DocTest(docsrc=doc, lineno=1)
        ex.config['default_runtime_state'] = shared
        with contextlib.redirect_stdout(io.StringIO()):
            try:
                res.append(bool(ex.run(verbose=0, on_error='return')['passed']))
            except BaseException as e:      # noqa
                res.append('raised %s' % type(e).__name__)
    return res


def option_histories(ctx):
    """'under the active flags': the flags of THIS doctest.  IGNORE_EXCEPTION_DETAIL / -ELLIPSIS switched by a block directive of an
    earlier doctest of the same run must not decide how a later doctest's expected exception is compared"""
    n = 0
    for dflt in ({}, {'ELLIPSIS': True}, {'NORMALIZE_WHITESPACE': True}, {'IGNORE_EXCEPTION_DETAIL': False}, {'IGNORE_EXCEPTION_DETAIL': True}):
        for first_dir, later, exp_later in (
                ('+IGNORE_EXCEPTION_DETAIL', ">>> raise ValueError('actual message')\n%s\nValueError: another message" % HDR, bool(dflt.get('IGNORE_EXCEPTION_DETAIL'))),
                ('-IGNORE_EXCEPTION_DETAIL', ">>> raise ValueError('actual message')\n%s\nValueError: another message" % HDR, bool(dflt.get('IGNORE_EXCEPTION_DETAIL'))),
                ('-ELLIPSIS', ">>> raise ValueError('actual message')\n%s\nValueError: actual ..." % HDR, True),
                ('+IGNORE_WANT', ">>> raise ValueError('actual message')\n%s\nKeyError: actual message" % HDR, False)):
            docs = ['>>> # xdoctest: %s\n>>> print(1)\n1' % first_dir, later, later]
            exp = [True, exp_later, exp_later]
            got = _history(docs, dict(dflt))
            n += 1
            if got != exp:
                ctx.violation('exception-history', {
                    'what': 'doctests run one after the other over shared default options %r: passed=%r, by construction %r' % (dflt, got, exp),
                    'history': docs, 'default_runtime_state': dflt, 'expected_pass': exp,
                    'theorem_or_correspondence': 'C03 on DocTest.run with the flags of an earlier doctest of the run'}, True)
    # ... nor the flags of an earlier STATEMENT: a directive written inside a statement (on any of its lines, also when the statement
    # holds a line that is only a comment) counts for that statement alone
    later = ">>> raise ValueError('actual message')\n%s\nValueError: another message" % HDR
    for first in (">>> items = [1,  # xdoctest: +IGNORE_EXCEPTION_DETAIL\n...          # a remark on a line of its own\n...          2]",
                  ">>> items = [1,\n...          # xdoctest: +IGNORE_EXCEPTION_DETAIL\n...          2]",
                  ">>> for i in range(1):\n...     # xdoctest: +IGNORE_EXCEPTION_DETAIL\n...     pass",
                  ">>> items = [1,\n>>>          # a remark\n>>>          2]  # xdoctest: +IGNORE_EXCEPTION_DETAIL",
                  ">>> x = 1  # xdoctest: +IGNORE_EXCEPTION_DETAIL"):
        docs = [first + '\n' + later]
        got = _history(docs, {})
        n += 1
        if got != [False]:
            ctx.violation('exception-history', {
                'what': 'IGNORE_EXCEPTION_DETAIL written inside an earlier statement decides how a later expected exception is compared: passed=%r, by construction [False]' % (got,),
                'history': docs, 'default_runtime_state': {}, 'expected_pass': [False],
                'theorem_or_correspondence': 'C03 on DocTest.run with an inline flag of an earlier statement'}, True)
    # 'after an expected exception the following statements still run' - wherever the next prompt stands: directly behind the traceback
    # want, at the same, a smaller or a larger indentation (a statement that must surface as THE failure of the doctest)
    for lead, ind1, ind2 in (('', 0, 0), ('Intro text.\n', 4, 0), ('Intro text.\n', 4, 2), ('', 0, 4), ('Note:\n', 8, 4)):
        doc = (lead + ' ' * ind1 + ">>> raise ValueError('a')\n" + ' ' * ind1 + HDR + '\n' + ' ' * ind1 + 'ValueError: a\n' +
               ' ' * ind2 + ">>> raise RuntimeError('must surface')\n")
        from xdoctest import doctest_example as _de
        import contextlib as _cl, io as _io
        ex = _de.DocTest(docsrc=doc, lineno=1)
        with _cl.redirect_stdout(_io.StringIO()):
            try:
                s = ex.run(verbose=0, on_error='return')
                got = ('failed' if s['failed'] else 'passed' if s['passed'] else 'skipped', type(s['exc_info'][1]).__name__ if s['exc_info'] else None)
            except BaseException as e:      # noqa
                got = ('raised', type(e).__name__)
        n += 1
        if ind2 > ind1:
            continue      # a prompt indented MORE than the source above it is known finding F8b of C13 (labelled want): no expectation here
        if got != ('failed', 'RuntimeError'):
            ctx.violation('exception-history', {
                'what': 'the statement behind an expected exception (next prompt at indentation %d, the raising example at %d): outcome %r, by construction failed with RuntimeError' % (ind2, ind1, got),
                'history': [doc], 'default_runtime_state': {}, 'expected_pass': [False],
                'theorem_or_correspondence': 'C03: after an expected exception the following statements still run'}, True)
    ctx.evaluations += n
    ctx.count('option_histories', n)


def foreign_outcomes(ctx):
    """exceptions that a test framework uses to say FAILED (pytest.fail(), a `pytest.raises` block in which nothing was raised, an
    unexpected pass of xfail(strict)...) are not ways of passing: a doctest whose code raises one never comes out as passed, and
    nothing behind the raising statement runs.  (What else happens - the exception escapes the run or is recorded - is C09's.)"""
    from xdoctest import doctest_example
    try:
        import pytest      # noqa
    except ImportError:
        return
    raisers = ["pytest.fail('must surface')", "pytest.fail('must surface', pytrace=False)",
               "with pytest.raises(KeyError):\n...     noraise = 1", "pytest.xfail('known to be broken')", "pytest.exit('stop everything')"]
    for raiser in raisers:
        for want in (None, 'Traceback (most recent call last):\nFailed: must surface', 'ignored text'):
            for oe in ('return', 'raise'):
                for flags in ('', '>>> # xdoctest: +IGNORE_WANT\n', '>>> # xdoctest: +IGNORE_EXCEPTION_DETAIL\n'):
                    ctx.evaluations += 1
                    doc = flags + '>>> import pytest\n>>> ran = []\n>>> ' + raiser + ('\n' + want if want else '') + "\n>>> ran.append('after')\n"
                    ex = doctest_example.DocTest(docsrc=doc, lineno=1)
                    ex.mode = 'native'
                    so = sys.stdout
                    outcome = None
                    try:
                        with warnings.catch_warnings():
                            warnings.simplefilter('ignore')
                            summ = ex.run(on_error=oe, verbose=0)
                        outcome = 'passed' if summ['passed'] else ('failed' if summ['failed'] else 'skipped')
                    except BaseException as e:      # noqa
                        outcome = 'raised ' + type(e).__name__
                    finally:
                        sys.stdout = so
                    if raiser.startswith('pytest.xfail') or raiser.startswith('pytest.exit'):
                        continue        # (xfail / exit are not failures by pytest's own meaning: observed, no expectation)
                    if outcome in ('passed', 'skipped'):
                        ctx.violation('exception-verdict', {'what': 'the doctest code raises a FAILURE outcome of the test framework (%s) and the doctest is reported %s' % (raiser.split(chr(10))[0], outcome),
                                                            'doctest': doc, 'on_error': oe, 'expected': 'not passed', 'theorem_or_correspondence': 'C03 on DocTest.run: outcome exceptions of pytest that mean failure'}, True)
                        return
    ctx.count('foreign_outcome_cases', len(raisers) * 3 * 2 * 3)


def run(ctx):
    step_level(ctx)
    foreign_outcomes(ctx)
    option_histories(ctx)
    # 'exceptions are never swallowed': the context manager around every part lets every exception through (truthy, falsy, BaseException)
    from harness.props import c12
    c12.capture_protocol(ctx)
    cases = build_cases(ctx)
    chunks = [cases[i:i + 150] for i in range(0, len(cases), 150)]
    results = [r for ch in common.pmap(_worker, chunks) for r in ch]
    seen = set()
    for c, (impl, model, df, problem) in zip(cases, results):
        ctx.evaluations += 1
        ctx.count('form:' + c['form'])
        ctx.count('impl:%s/%s' % (impl['end'], impl.get('failure')))
        if c['doc'] not in seen:
            seen.add(c['doc'])
            ctx.nontrivial += 1
        if problem and len([v for v in ctx.violations if v['kind'] == 'exception-verdict']) < 5:
            ctx.violation('exception-verdict', {'what': problem, 'doctest': c['doc'], 'case': c, 'impl': impl,
                          'theorem_or_correspondence': 'by-construction verdict of the exception table'}, True)
        if df:
            ctx.corr_failures.append(c['doc'])
            if len([v for v in ctx.violations if v['kind'] == 'run-correspondence']) < 5:
                ctx.violation('run-correspondence', {
                    'what': 'DocTest.run differs from the run-loop model on: ' + ', '.join(k for k, _, _ in df),
                    'doctest': c['doc'], 'case': c, 'diff': [[k, repr(a), repr(b)] for k, a, b in df],
                    'theorem_or_correspondence': 'correspondence run (feeds C03_traceback_iff and the decision table)'},
                    found_input=bool(problem))
    ctx.add_rule('traceback texts: all of <=%d lines over a %d-symbol line alphabet + seeded longer ones (extract_exc_want); '
                 '_strip_exception_details on all strings over {a . : newline space} up to length %d; '
                 'doctest table: 4 exception classes (builtin, KeyError repr, user, module-qualified) x 6 messages x 10 want forms x 4 flag settings '
                 'x positions x {raised directly, from a helper}; non-trivial = distinct doctest / text that is a traceback block / changed string'
                 % (2 if ctx.tier == 'quick' else 3, len(LINE_SYMS) * 2 - 1, 5 if ctx.tier == 'quick' else 6))
    ctx.sample({'doctest': cases[7]['doc'], 'expect': cases[7]['expect'], 'form': cases[7]['form']})
    ctx.sample({'doctest': cases[len(cases) // 2]['doc'], 'expect': cases[len(cases) // 2]['expect'], 'form': cases[len(cases) // 2]['form']})
    ctx.assumptions += ['traceback.format_exception_only (how a class is named) is CPython\'s; its last element is fed to the model',
                        'outcomes of executing a part come from the real run']


def replay(path):
    d = json.load(open(path))
    if d.get('kind') == 'capture-protocol':
        from harness.props import c12
        return c12.replay_capture_protocol(d, path, 'C03')
    if d.get('kind') == 'exception-history':
        got = _history(d['history'], dict(d['default_runtime_state']))
        print('history:\n%s\npassed=%r expected=%r' % ('\n--\n'.join(d['history']), got, d['expected_pass']))
        if got != d['expected_pass']:
            print('VIOLATION property=C03 replay=%s' % path)
            return 1
        return 0
    if 'doctest' not in d:
        from xdoctest import checker
        t = d.get('text')
        print('text=%r impl extract=%r model=%r' % (t, checker.extract_exc_want(t), common.model_call('extract_exc_want', t)))
        print('VIOLATION property=C03 replay=%s' % path)
        return 1
    res = runmodel.run_both_many([dict(doc=d['doctest'], prelude=PRELUDE)])
    impl, model, df, ex = res[0]
    problem = expectation_problem(d['case'], impl, ex) if d.get('case') else None
    print('doctest:\n%s\nimpl=%r\nmodel=%r\ndiff=%r\nproblem=%r' % (d['doctest'], impl, model, df, problem))
    if df or problem:
        print('VIOLATION property=C03 replay=%s' % path)
        return 1
    return 0
